"""C04 — one linear map, many representations: all of them act identically.

Kind 2 (sesquilinear maps): *basis enumeration*.  For fixed shapes the action  Phi(X) = sum_t A_t X B_t^dagger  is linear
in X, linear in A_t, conjugate-linear in B_t and additive over t.  So it is decided by
  (1) the full product basis  A in {E_ab, iE_ab} x B in {E_cd, iE_cd} x X in {E_ef, iE_ef}  for every shape
      (out_r, in_r, out_c, in_c) of the alphabet (independent left/right shapes, unequal in/out)     [C04.rank1]
  (2) additivity / homogeneity in X and additivity over the Kraus list on ALL pairs of basis elements at the smallest
      shapes (so "it is linear" is an explored fact, not an assumption)                                 [C04.linearity]
  (3) higher-rank families from a structured catalogue (matrix units with phases, Fourier blocks, Gaussian-integer
      matrices) + seed-derived generic matrices, in every representation form                           [C04.forms]
and the conversions / partial application / natural representation / dimension inference are checked on the same
alphabets against the reference of mc/ref/channels.py.
"""

from __future__ import annotations

import itertools

import numpy as np

from mc import catalog
from mc.engine import Clause, call, exc_text, is_deliberate_rejection, ok, rejected, viol
from mc.ref import channels as ch

RULE = ("case = one point of a clause's finite product space: (shape (out_r,in_r,out_c,in_c), operator keys, representation "
        "form, dim form, target position, surrounding dims, tol, ...); inside a case every input operator X of the basis "
        "{E_ef, iE_ef} (plus one Gaussian-integer and one seed-derived generic X) is applied. Every case of the listed "
        "alphabets is executed. Non-trivial iff the reference map is non-zero and NOT invariant under all convention swaps "
        "at once (its Choi matrix differs from its conjugate or its transpose, or its four dimensions are not all equal); "
        "for tol/dimension clauses: at least one operator is cut / the dimensions are not all equal. states = distinct cases, "
        "transitions = toqito API calls")
ASSUMPTIONS = [
    "numpy @, kron, conj, eigh, svd are correct (they are the primitives of the reference, not the mechanism under test)",
    "alg tolerance 1e-9*max(1,|expected|) for one-shot dense linear algebra on entries O(1..100), dims <= 4 (totals <= 64)",
    "shapes bounded: local dims in {1,2,3} (quick) / {1,2,3,4} (thorough); rank <= 4; <= 3 subsystems (4 over {1,2} in thorough)",
    "partial_channel with a CP flat/nested/row Kraus list is exercised on square surrounding spaces only (row dims = column "
    "dims); rectangular surroundings are exercised for the pairs and Choi forms, where the code documents separate row/column dims",
    "boolean decisions inside choi_to_kraus (Hermitian? PSD? |eigenvalue| > tol?) are only judged on inputs whose margin is "
    ">= 100x the respective tolerance",
]


def dims_alphabet(tier):
    return (1, 2, 3) if tier == "quick" else (1, 2, 3, 4)


def shapes4(tier):
    D = dims_alphabet(tier)
    return sorted(itertools.product(D, repeat=4), key=lambda s: (max(s), sum(s), s))


def x_inputs(i_r, i_c, extra=True):
    xs = ch.basis(i_r, i_c, with_i=True)
    if extra:
        xs = xs + [("gauss", ch._gauss(i_r, i_c, 4)), ("generic", catalog.generic_matrix(i_r, i_c, k=7))]
    return xs


def choi_dim_arg(shape, form):
    o_r, i_r, o_c, i_c = shape
    if form == "none":
        return None
    if form == "int":
        return int(i_r)
    if form == "vec":
        return [i_r, o_r]
    if form == "vec_nd":
        return np.array([i_r, o_r])
    if form == "mat":
        return [[i_r, o_r], [i_c, o_c]]
    if form == "mat_nd":
        return np.array([[i_r, o_r], [i_c, o_c]])
    raise KeyError(form)


def choi_dim_forms(shape):
    o_r, i_r, o_c, i_c = shape
    out = ["mat", "mat_nd"]
    if (i_r, o_r) == (i_c, o_c):
        out += ["vec", "vec_nd"]
    if i_r == o_r and i_c == o_c:
        out += ["none"]
    if len(set(shape)) == 1:
        out += ["int"]
    return out


def result_to_choi(res, shape):
    """Choi matrix (reference arithmetic) of a Kraus description returned by toqito; checks operator shapes."""
    o_r, i_r, o_c, i_c = shape
    if isinstance(res, list) and len(res) == 0:
        return np.zeros((i_r * o_r, i_c * o_c), dtype=complex), "empty", 0
    pairs, form = ch.pairs_from_result(res)
    for A, B in pairs:
        if A.shape != (o_r, i_r) or B.shape != (o_c, i_c):
            raise ValueError("operator shapes are not (out_r x in_r) for the left and (out_c x in_c) for the right operators")
    return ch.choi_pairs(pairs), form, len(pairs)


def cksum(m) -> float:
    m = np.asarray(m)
    w = np.arange(1, m.size + 1, dtype=float).reshape(m.shape)
    return round(float(np.sum(np.abs(m) * w)), 8)


# ================================================================================================ C04.rank1
def rank1_cases(tier, seed):
    for shape in shapes4(tier):
        o_r, i_r, o_c, i_c = shape
        for a, b, sa in itertools.product(range(o_r), range(i_r), (0, 1)):
            for c, d, sb in itertools.product(range(o_c), range(i_c), (0, 1)):
                yield {"shape": list(shape), "A": [a, b, sa], "B": [c, d, sb], "dtype": "complex"}
                if sa == 0 and sb == 0:
                    yield {"shape": list(shape), "A": [a, b, sa], "B": [c, d, sb], "dtype": "int"}


def rank1_check(case):
    from toqito.channel_ops import apply_channel, choi_to_kraus, kraus_to_choi, natural_representation

    shape = tuple(case["shape"])
    o_r, i_r, o_c, i_c = shape
    a, b, sa = case["A"]
    c, d, sb = case["B"]
    dt = np.int64 if case["dtype"] == "int" else complex
    A = ch.unit(o_r, i_r, a, b, 1j if sa else 1, dtype=dt)
    B = ch.unit(o_c, i_c, c, d, 1j if sb else 1, dtype=dt)
    pairs = [(A, B)]
    J = ch.choi_pairs(pairs)
    calls = 0
    for name, X in x_inputs(i_r, i_c, extra=False):
        exp = ch.apply_pairs(pairs, X)
        for form, phi in (("pairs", [[A.copy(), B.copy()]]), ("choi", J.copy())):
            got, exc = call(apply_channel, X.copy(), phi)
            calls += 1
            if exc is not None:
                return viol(f"apply_channel raised on rank-1 {form} form, X={name}: " + exc_text(exc), site=f"apply_channel:{form}:exception")
            if not ch.close(got, exp):
                return viol(f"apply_channel(X, {form} form) != A X B^dagger for X={name}", site=f"apply_channel:{form}", observed=np.asarray(got), expected=exp)
    got, exc = call(kraus_to_choi, [[A.copy(), B.copy()]])
    calls += 1
    if exc is not None:
        return viol("kraus_to_choi raised on a rank-1 pair: " + exc_text(exc), site="kraus_to_choi:pairs:exception")
    if not ch.close(got, J):
        return viol("kraus_to_choi([[A,B]]) != sum_ij E_ij (x) A E_ij B^dagger", site="kraus_to_choi:pairs", observed=np.asarray(got), expected=J)
    ks, exc = call(choi_to_kraus, J.copy(), dim=[[i_r, o_r], [i_c, o_c]])
    calls += 1
    if exc is not None:
        return viol("choi_to_kraus raised on a rank-1 Choi matrix: " + exc_text(exc), site="choi_to_kraus:exception")
    try:
        J2, form, cnt = result_to_choi(ks, shape)
    except (TypeError, ValueError) as e:
        return viol(f"choi_to_kraus returned a malformed Kraus description: {e}", site="choi_to_kraus:structure")
    if not ch.close(J2, J):
        return viol("operators returned by choi_to_kraus do not reproduce the map", site="choi_to_kraus:action", observed=J2, expected=J)
    if cnt != 1:
        return viol(f"rank-1 Choi matrix decomposed into {cnt} operators (zero singular values must be discarded)",
                    site="choi_to_kraus:count", observed=cnt, expected=1)
    if (o_r, i_r) == (o_c, i_c) and np.array_equal(A, B):
        # completely positive rank-1 map: flat and nested forms, natural representation
        for form in ("flat", "nested"):
            phi = ch.to_form(pairs, form)
            for name, X in x_inputs(i_r, i_c, extra=False):
                got, exc = call(apply_channel, X.copy(), phi)
                calls += 1
                if exc is not None:
                    return viol(f"apply_channel raised on {form} form: " + exc_text(exc), site=f"apply_channel:{form}:exception")
                if not ch.close(got, ch.apply_pairs(pairs, X)):
                    return viol(f"apply_channel(X, {form} form) != K X K^dagger for X={name}", site=f"apply_channel:{form}", observed=np.asarray(got))
            got, exc = call(kraus_to_choi, ch.to_form(pairs, form))
            calls += 1
            if exc is not None:
                return viol(f"kraus_to_choi raised on {form} form: " + exc_text(exc), site=f"kraus_to_choi:{form}:exception")
            if not ch.close(got, J):
                return viol(f"kraus_to_choi({form}) != reference Choi matrix", site=f"kraus_to_choi:{form}", observed=np.asarray(got), expected=J)
        N, exc = call(natural_representation, [A.copy()])
        calls += 1
        if exc is not None:
            return viol("natural_representation raised: " + exc_text(exc), site="natural_representation:exception")
        if not ch.close(N, ch.natural_pairs(pairs)):
            return viol("natural_representation != sum K (x) conj(K)", site="natural_representation:matrix", observed=np.asarray(N))
    return ok(ch.discriminating(J, shape), obs=cksum(J2), calls=calls)


# ================================================================================================ C04.linearity
def _basis_ops(o, i):
    return [(a, b, s) for a in range(o) for b in range(i) for s in (0, 1)]


def linearity_cases(tier, seed):
    D = (1, 2)
    for shape in sorted(itertools.product(D, repeat=4), key=lambda s: (sum(s), s)):
        o_r, i_r, o_c, i_c = shape
        maps = [(A, B) for A in _basis_ops(o_r, i_r) for B in _basis_ops(o_c, i_c)]
        for p in range(len(maps)):
            for q in range(len(maps)):
                yield {"mode": "kraus", "shape": list(shape), "p": [list(maps[p][0]), list(maps[p][1])],
                       "q": [list(maps[q][0]), list(maps[q][1])]}
    # additivity / homogeneity in X, on all pairs of basis inputs, for catalogue maps in every form
    shapes = [(1, 1, 1, 1), (2, 2, 2, 2), (2, 1, 2, 1), (1, 2, 1, 2), (2, 2, 1, 1), (1, 2, 2, 1), (2, 1, 1, 2), (2, 2, 2, 1), (1, 2, 2, 2)]
    if tier == "thorough":
        shapes += [(3, 2, 3, 2), (2, 3, 2, 3), (3, 2, 2, 3), (3, 3, 3, 3)]
    for shape in shapes:
        o_r, i_r, o_c, i_c = shape
        nb = 2 * i_r * i_c
        for fam in ("gauss", "gen"):
            kinds = ["gen"] + (["cp"] if (o_r, i_r) == (o_c, i_c) else [])
            for kind in kinds:
                for form in ch.forms_for(kind == "cp", 3):
                    for x1 in range(nb):
                        for x2 in range(nb):
                            yield {"mode": "input", "shape": list(shape), "fam": fam, "kind": kind, "form": form, "x1": x1, "x2": x2}


def _mk(o, i, key):
    a, b, s = key
    return ch.unit(o, i, a, b, 1j if s else 1)


def linearity_check(case):
    from toqito.channel_ops import apply_channel, kraus_to_choi

    shape = tuple(case["shape"])
    o_r, i_r, o_c, i_c = shape
    if case["mode"] == "kraus":
        p = (_mk(o_r, i_r, case["p"][0]), _mk(o_c, i_c, case["p"][1]))
        q = (_mk(o_r, i_r, case["q"][0]), _mk(o_c, i_c, case["q"][1]))
        both = [[p[0], p[1]], [q[0], q[1]]]
        Jp, e1 = call(kraus_to_choi, [[p[0], p[1]]])
        Jq, e2 = call(kraus_to_choi, [[q[0], q[1]]])
        Jb, e3 = call(kraus_to_choi, both)
        for e in (e1, e2, e3):
            if e is not None:
                return viol("kraus_to_choi raised: " + exc_text(e), site="kraus_to_choi:pairs:exception")
        if not ch.close(Jb, np.asarray(Jp) + np.asarray(Jq)):
            return viol("kraus_to_choi is not additive over the Kraus list", site="kraus_to_choi:additive", observed=np.asarray(Jb))
        if not ch.close(Jb, ch.choi_pairs([p, q])):
            return viol("kraus_to_choi of a two-pair list != reference", site="kraus_to_choi:pairs", observed=np.asarray(Jb))
        calls = 3
        for name, X in ch.basis(i_r, i_c, with_i=True):
            g1, e1 = call(apply_channel, X, [[p[0], p[1]]])
            g2, e2 = call(apply_channel, X, [[q[0], q[1]]])
            gb, e3 = call(apply_channel, X, both)
            calls += 3
            for e in (e1, e2, e3):
                if e is not None:
                    return viol("apply_channel raised: " + exc_text(e), site="apply_channel:pairs:exception")
            if not ch.close(gb, np.asarray(g1) + np.asarray(g2)):
                return viol(f"apply_channel is not additive over the Kraus list (X={name})", site="apply_channel:additive", observed=np.asarray(gb))
        return ok(case["p"] != case["q"], obs=cksum(Jb), calls=calls)
    # mode input
    pairs = ch.build_map({"fam": case["fam"], "shape": list(shape), "r": 3, "k": 0, "kind": case["kind"]})
    phi = ch.to_form(pairs, case["form"])
    bs = ch.basis(i_r, i_c, with_i=True)
    X1, X2 = bs[case["x1"]][1], bs[case["x2"]][1]
    coef = 2 - 1j
    g1, e1 = call(apply_channel, X1, phi)
    g2, e2 = call(apply_channel, X2, phi)
    gs, e3 = call(apply_channel, X1 + coef * X2, phi)
    for e in (e1, e2, e3):
        if e is not None:
            return viol("apply_channel raised: " + exc_text(e), site=f"apply_channel:{case['form']}:exception")
    if not ch.close(gs, np.asarray(g1) + coef * np.asarray(g2)):
        return viol("apply_channel(X1 + c X2) != apply_channel(X1) + c apply_channel(X2)", site=f"apply_channel:{case['form']}:linear",
                    observed=np.asarray(gs), expected=np.asarray(g1) + coef * np.asarray(g2))
    if not ch.close(gs, ch.apply_pairs(pairs, X1 + coef * X2)):
        return viol("apply_channel != reference on a complex combination of basis inputs", site=f"apply_channel:{case['form']}",
                    observed=np.asarray(gs))
    return ok(case["x1"] != case["x2"], obs=cksum(gs), calls=3)


# ================================================================================================ C04.forms
def forms_cases(tier, seed):
    ks = (0,) if tier == "quick" else (0, 1)
    for shape in shapes4(tier):
        for fam in ch.FAMILIES:
            for r in (2, 3, 4):
                for k in ks:
                    for form in ("pairs", "choi"):
                        yield {"shape": list(shape), "fam": fam, "r": r, "k": k, "kind": "gen", "form": form}
    D = dims_alphabet(tier)
    for o, i in sorted(itertools.product(D, repeat=2), key=lambda s: (max(s), sum(s), s)):
        for kind in ("cp", "hp", "neg"):
            for fam in ch.FAMILIES:
                for r in (1, 2, 3, 4):
                    for k in (0, 1):
                        rank = r if kind == "cp" else 2 * r
                        for form in ch.forms_for(kind == "cp", rank):
                            yield {"shape": [o, i, o, i], "fam": fam, "r": r, "k": k, "kind": kind, "form": form}


def forms_check(case):
    from toqito.channel_ops import apply_channel, kraus_to_choi, natural_representation

    shape = tuple(case["shape"])
    o_r, i_r, o_c, i_c = shape
    pairs = ch.build_map(case)
    form = case["form"]
    J = ch.choi_pairs(pairs)
    phi = ch.to_form(pairs, form)
    calls = 0
    last = None
    for name, X in x_inputs(i_r, i_c):
        exp = ch.apply_pairs(pairs, X)
        got, exc = call(apply_channel, X.copy(), phi)
        calls += 1
        if exc is not None:
            return viol(f"apply_channel raised ({form} form, X={name}): " + exc_text(exc), site=f"apply_channel:{form}:exception")
        if not ch.close(got, exp):
            return viol(f"apply_channel(X, {form} form) != sum_t A_t X B_t^dagger for X={name}", site=f"apply_channel:{form}",
                        observed=np.asarray(got), expected=exp)
        last = got
    if form != "choi":
        got, exc = call(kraus_to_choi, ch.to_form(pairs, form))
        calls += 1
        if exc is not None:
            return viol(f"kraus_to_choi raised ({form} form): " + exc_text(exc), site=f"kraus_to_choi:{form}:exception")
        if not ch.close(got, J):
            return viol(f"kraus_to_choi({form}) != sum_ij E_ij (x) Phi(E_ij)", site=f"kraus_to_choi:{form}", observed=np.asarray(got), expected=J)
        got1, exc = call(kraus_to_choi, ch.to_form(pairs, form), 1)
        calls += 1
        if exc is not None:
            return viol(f"kraus_to_choi(sys=1) raised ({form} form): " + exc_text(exc), site=f"kraus_to_choi:{form}:sys1:exception")
        if not ch.close(got1, ch.choi_sys1_pairs(pairs)):
            return viol("kraus_to_choi(sys=1) != sum_ij Phi(E_ij) (x) E_ij (map applied to the first half)", site=f"kraus_to_choi:{form}:sys1",
                        observed=np.asarray(got1))
    if form == "flat":
        N, exc = call(natural_representation, ch.to_form(pairs, "flat"))
        calls += 1
        if exc is not None:
            return viol("natural_representation raised: " + exc_text(exc), site="natural_representation:exception")
        for name, X in x_inputs(i_r, i_c):
            if np.asarray(N).shape != (o_r * o_c, i_r * i_c) or not ch.close(np.asarray(N) @ ch.vec_row(X), ch.vec_row(ch.apply_pairs(pairs, X))):
                return viol(f"natural_representation(K) vec_r({name}) != vec_r(Phi({name}))", site="natural_representation:action",
                            observed=np.asarray(N))
    return ok(ch.discriminating(J, shape), obs=cksum(last), calls=calls)


# ================================================================================================ C04.choi_to_kraus
def _raw_choi(rows, cols, kind, k):
    """Arbitrary matrices used directly as Choi matrices (every matrix is the Choi matrix of exactly one map)."""
    if kind == "raw_gauss":
        return ch._gauss(rows, cols, 13 + k)
    if kind == "raw_gen":
        return catalog.generic_matrix(rows, cols, k=40 + k)
    if kind == "raw_herm":  # Hermitian indefinite (square only)
        g = catalog.generic_matrix(rows, rows, k=50 + k)
        return (g + g.conj().T) / 2
    if kind == "raw_psd":
        g = ch._gauss(rows, max(1, rows - 1), 17 + k)
        return g @ g.conj().T
    if kind == "raw_realsym":
        g = catalog.generic_matrix(rows, rows, k=60 + k, real=True)
        return (g + g.T) / 2
    raise KeyError(kind)


def c2k_cases(tier, seed):
    ks = (0,) if tier == "quick" else (0, 1)
    for shape in shapes4(tier):
        o_r, i_r, o_c, i_c = shape
        rows, cols = i_r * o_r, i_c * o_c
        srcs = [("map", fam, r) for fam in ch.FAMILIES for r in (1, 2, 3)]
        srcs += [("raw_gauss", None, 0), ("raw_gen", None, 0)]
        if rows == cols:
            srcs += [("raw_herm", None, 0), ("raw_psd", None, 0), ("raw_realsym", None, 0)]
        for src, fam, r in srcs:
            for k in ks:
                for df in choi_dim_forms(shape):
                    yield {"shape": list(shape), "src": src, "fam": fam, "r": r, "k": k, "kind": "gen", "dimform": df}
    D = dims_alphabet(tier)
    for o, i in sorted(itertools.product(D, repeat=2), key=lambda s: (max(s), sum(s), s)):
        shape = (o, i, o, i)
        for kind in ("cp", "hp", "neg"):
            for fam in ch.FAMILIES:
                for r in (1, 2, 3, 4):
                    for k in (0, 1):
                        for df in choi_dim_forms(shape):
                            yield {"shape": list(shape), "src": "map", "fam": fam, "r": r, "k": k, "kind": kind, "dimform": df}


def _c2k_choi(case):
    shape = tuple(case["shape"])
    o_r, i_r, o_c, i_c = shape
    if case["src"] == "map":
        return ch.choi_pairs(ch.build_map(case))
    return np.asarray(_raw_choi(i_r * o_r, i_c * o_c, case["src"], case["k"]), dtype=complex)


def _classify(J, tol_h=1e-8):
    """(hermitian?, psd?, safe) with margins: 'safe' False when a decision inside choi_to_kraus is within 100x of its tolerance."""
    safe = True
    herm = False
    psd = False
    if J.shape[0] == J.shape[1]:
        dev = float(np.max(np.abs(J - J.conj().T)))
        scale = max(1.0, float(np.max(np.abs(J))))
        if dev <= 1e-12 * scale:
            herm = True
        elif dev < 1e-3 * scale:
            safe = False
        if herm:
            w = np.linalg.eigvalsh((J + J.conj().T) / 2)
            if w.min() >= -1e-10 * scale:
                psd = True
            elif w.min() > -1e-4:
                safe = False
    return herm, psd, safe


def _rank_with_margin(J, tol):
    s = np.linalg.svd(J, compute_uv=False)
    big = int(np.sum(s >= 100 * tol))
    small = int(np.sum(s <= tol / 100))
    return big, (big + small == len(s))


def c2k_check(case):
    from toqito.channel_ops import apply_channel, choi_to_kraus

    shape = tuple(case["shape"])
    o_r, i_r, o_c, i_c = shape
    J = _c2k_choi(case)
    dim = choi_dim_arg(shape, case["dimform"])
    ks, exc = call(choi_to_kraus, J.copy()) if dim is None else call(choi_to_kraus, J.copy(), dim=dim)
    if exc is not None:
        return viol(f"choi_to_kraus raised (dim form {case['dimform']}): " + exc_text(exc), site="choi_to_kraus:exception")
    try:
        J2, form, cnt = result_to_choi(ks, shape)
    except (TypeError, ValueError) as e:
        return viol(f"choi_to_kraus returned a malformed Kraus description: {e}", site="choi_to_kraus:structure")
    if not ch.close(J2, J):
        return viol("operators returned by choi_to_kraus do not reproduce the map (J' != J)", site="choi_to_kraus:action",
                    observed=J2, expected=J)
    herm, psd, safe = _classify(J)
    rk, rk_safe = _rank_with_margin(J, 1e-9)
    if safe and psd and (o_r, i_r) == (o_c, i_c) and form not in ("flat", "empty"):
        return viol(f"completely positive map (PSD Choi matrix) not returned as a single flat list but as '{form}'", site="choi_to_kraus:cp_flat")
    if rk_safe and cnt != rk:
        return viol(f"number of Kraus operators {cnt} != rank {rk} of the Choi matrix (tol=1e-9 cut)", site="choi_to_kraus:count",
                    observed=cnt, expected=rk)
    calls = 1
    last = None
    if cnt:
        for name, X in x_inputs(i_r, i_c, extra=True)[-3:]:
            got, exc = call(apply_channel, X.copy(), ks)
            calls += 1
            if exc is not None:
                return viol("apply_channel raised on the output of choi_to_kraus: " + exc_text(exc), site="choi_to_kraus:reapply:exception")
            if not ch.close(got, ch.apply_choi(J, X, o_r, o_c)):
                return viol("apply_channel(X, choi_to_kraus(J)) != action of J", site="choi_to_kraus:reapply", observed=np.asarray(got))
            last = got
    return ok(ch.discriminating(J, shape), obs=cksum(J2), calls=calls, branch="psd" if psd else ("herm" if herm else "svd"))


# ================================================================================================ C04.tol_cut
BIG = [1.0, 0.5, -0.75, 0.6, 0.9, -0.55, 0.7, 0.8, -0.65]
SMALL = [1.0, -1.0, 0.5, -0.5, 0.8, -0.7, 0.6, 0.9, -0.4]
TOLS = [1e-9, 1e-6, 1e-3, 0.25]


def tol_cases(tier, seed):
    D = dims_alphabet(tier)
    shapes = [(o, i, o, i) for o in D for i in D if o * i >= 2] + [(2, 1, 1, 2), (2, 2, 1, 3), (1, 3, 2, 2), (3, 1, 2, 2), (2, 3, 3, 1)]
    for shape in shapes:
        o_r, i_r, o_c, i_c = shape
        rows, cols = i_r * o_r, i_c * o_c
        n = min(rows, cols)
        if n <= 4:
            patterns = [p for p in itertools.product((0, 1), repeat=n)]
        else:
            patterns = [tuple(1 if q < m else 0 for q in range(n)) for m in range(0, n + 1)] + \
                       [tuple(1 if q % 2 == 0 else 0 for q in range(n)), tuple(0 if q % 3 == 0 else 1 for q in range(n))]
        ukeys = ["I", "F", "g0"] if tier == "quick" else ["I", "F", "XZ", "g0", "g1"]
        for branch in (["herm", "psd", "svd"] if rows == cols else ["svd"]):
            for u in ukeys:
                for pat in patterns:
                    for tol in TOLS:
                        yield {"shape": list(shape), "branch": branch, "u": u, "pattern": list(pat), "tol": tol}


def _tol_choi(case):
    o_r, i_r, o_c, i_c = case["shape"]
    rows, cols = i_r * o_r, i_c * o_c
    n = min(rows, cols)
    tol = case["tol"]
    bigscale = max(1.0, 200 * tol)
    vals = []
    for q, bit in enumerate(case["pattern"]):
        rep = q // len(BIG)   # spectra longer than the table (thorough tier): repeat with slightly different magnitudes
        v = BIG[q % len(BIG)] * (1 + 0.01 * rep) * bigscale if bit else SMALL[q % len(SMALL)] * (1 - 0.01 * rep) * tol / 100
        if case["branch"] in ("psd", "svd"):
            v = abs(v)
        vals.append(v)
    U = ch.structured_unitary(rows, case["u"])
    if case["branch"] == "svd":
        wkey = {"I": "F", "F": "g1", "XZ": "g0", "g0": "I", "g1": "F"}[case["u"]]
        W = ch.structured_unitary(cols, wkey)
        if rows == cols and cols > 1:
            W = W @ ch.structured_unitary(cols, "ph")  # make sure J is not Hermitian
    else:
        W = U
    J = np.zeros((rows, cols), dtype=complex)
    Jkeep = np.zeros((rows, cols), dtype=complex)
    for q in range(n):
        term = vals[q] * np.outer(U[:, q], W[:, q].conj())
        J = J + term
        if case["pattern"][q]:
            Jkeep = Jkeep + term
    if case["branch"] != "svd":
        J = (J + J.conj().T) / 2
        Jkeep = (Jkeep + Jkeep.conj().T) / 2
    return J, Jkeep, vals


def tol_check(case):
    from toqito.channel_ops import choi_to_kraus

    shape = tuple(case["shape"])
    o_r, i_r, o_c, i_c = shape
    J, Jkeep, vals = _tol_choi(case)
    tol = case["tol"]
    keep = int(sum(case["pattern"]))
    kwargs = {"dim": [[i_r, o_r], [i_c, o_c]]}
    if tol != 1e-9:
        kwargs["tol"] = tol
    ks, exc = call(choi_to_kraus, J.copy(), **kwargs)
    if exc is not None:
        return viol("choi_to_kraus raised: " + exc_text(exc), site="choi_to_kraus:exception")
    try:
        J2, form, cnt = result_to_choi(ks, shape)
    except (TypeError, ValueError) as e:
        return viol(f"choi_to_kraus returned a malformed Kraus description: {e}", site="choi_to_kraus:structure")
    if case["branch"] == "svd" and shape[0] * shape[1] == shape[2] * shape[3]:
        herm, _, safe = _classify(J)
        if herm or not safe:
            # not a clear SVD-branch input (can only happen for keep <= 1 degenerate patterns): judge action only
            keep_known = False
        else:
            keep_known = True
    else:
        keep_known = True
    if keep_known and cnt != keep:
        return viol(f"{cnt} operators returned; {keep} eigen/singular values exceed tol={tol} by >=100x and the others are <= tol/100",
                    site="choi_to_kraus:tol_count", observed=cnt, expected=keep)
    bound = ch.ALG * max(1.0, float(np.max(np.abs(J)))) + 1e-3 * tol
    if ch.err(J2, Jkeep) > bound:
        return viol("action of the returned operators != spectral truncation of J at tol", site="choi_to_kraus:tol_action",
                    observed=ch.err(J2, Jkeep), expected=bound)
    return ok(0 < keep < len(vals) or ch.discriminating(J, shape), obs=cksum(J2), calls=1)


# ================================================================================================ C04.chain
def chain_cases(tier, seed):
    ks = (0,) if tier == "quick" else (0, 1)
    sh = shapes4(tier)
    for shape in sh:
        for fam in ch.FAMILIES:
            for r in (1, 2, 3):
                for k in ks:
                    yield {"shape": list(shape), "fam": fam, "r": r, "k": k, "kind": "gen", "form": "pairs"}
    D = dims_alphabet(tier)
    for o, i in sorted(itertools.product(D, repeat=2), key=lambda s: (max(s), sum(s), s)):
        for kind in ("cp", "hp", "neg"):
            for fam in ch.FAMILIES:
                for r in (1, 2, 3, 4):
                    for k in (0, 1):
                        rank = r if kind == "cp" else 2 * r
                        for form in ch.forms_for(kind == "cp", rank):
                            if form != "choi":
                                yield {"shape": [o, i, o, i], "fam": fam, "r": r, "k": k, "kind": kind, "form": form}


def chain_check(case):
    from toqito.channel_ops import choi_to_kraus, kraus_to_choi

    shape = tuple(case["shape"])
    o_r, i_r, o_c, i_c = shape
    pairs = ch.build_map(case)
    Jref = ch.choi_pairs(pairs)
    if not np.any(np.abs(Jref) > 1e-9):
        return ok(False, obs=0.0, calls=0)  # the catalogue element happens to be the zero map: no chain to follow
    dim = [[i_r, o_r], [i_c, o_c]]
    cur = ch.to_form(pairs, case["form"])
    calls = 0
    first = None
    for step in range(3):
        J, exc = call(kraus_to_choi, cur)
        calls += 1
        if exc is not None:
            return viol(f"kraus_to_choi raised at chain step {step}: " + exc_text(exc), site="chain:kraus_to_choi:exception")
        J = np.asarray(J)
        if first is None:
            first = J
        if not ch.close(J, first):
            return viol(f"Kraus->Choi->Kraus->Choi: Choi matrix changed at round {step}", site="chain:choi_changed", observed=J, expected=first)
        if not ch.close(J, Jref):
            return viol(f"Choi matrix at round {step} != reference", site="chain:choi_ref", observed=J, expected=Jref)
        cur, exc = call(choi_to_kraus, J, dim=dim)
        calls += 1
        if exc is not None:
            return viol(f"choi_to_kraus raised at chain step {step}: " + exc_text(exc), site="chain:choi_to_kraus:exception")
        if not isinstance(cur, list) or not cur:
            return viol("choi_to_kraus returned no operators for a non-zero map", site="chain:empty")
    return ok(ch.discriminating(Jref, shape), obs=cksum(first), calls=calls)


# ================================================================================================ C04.partial
CP_TARGETS_Q = [(2, 2), (3, 2), (2, 3), (1, 2), (2, 1), (3, 3)]
GEN_TARGETS_Q = [(2, 2, 2, 2), (2, 3, 3, 2), (3, 2, 1, 3), (2, 2, 3, 3), (1, 2, 2, 1), (3, 1, 2, 2)]


def _col_variants(others):
    vs = [("same", list(others)), ("rev", list(others[::-1])), ("inc", [d % 3 + 1 for d in others])]
    seen, out = set(), []
    for name, v in vs:
        if tuple(v) not in seen:
            seen.add(tuple(v))
            out.append((name, v))
    return out


def partial_cases(tier, seed):
    # dim omitted (two equal halves) with a map whose input and output dimensions differ but multiply to a perfect square, so that the Choi
    # matrix has the size of a map M_n -> M_n (added after seeded change C04-12, which inferred the split from the Choi matrix)
    for o, i in ((8, 2), (1, 4), (2, 8)):
        for form in ("choi", "flat"):
            yield {"n": 2, "pos": 1, "rothers": [i], "cothers": [i], "shape": [o, i, o, i], "fam": "gen", "r": 2, "k": 0, "kind": "cp", "form": form}
    placements = []
    for n in (1, 2, 3):
        for pos in range(n):
            for others in itertools.product((1, 2, 3), repeat=n - 1):
                placements.append((n, pos, list(others)))
    if tier == "thorough":
        for pos in range(4):
            for others in itertools.product((1, 2), repeat=3):
                placements.append((4, pos, list(others)))
    cp_targets = CP_TARGETS_Q + ([(4, 2), (2, 4), (4, 4)] if tier == "thorough" else [])
    gen_targets = GEN_TARGETS_Q + ([(4, 2, 2, 4), (2, 4, 3, 2), (3, 3, 3, 3)] if tier == "thorough" else [])
    ks = (0,) if tier == "quick" else (0, 1)
    for n, pos, others in placements:
        for fam in (("units", "gauss", "gen") if (n <= 2 or (n == 3 and tier == "thorough")) else ("gauss", "gen")):
            for k in (ks if n <= 2 else (0,)):
                for (o, i) in cp_targets:
                    for r in (1, 3):
                        for form in ch.forms_for(True, r):
                            cvs = _col_variants(others) if form in ("pairs", "choi") else [("same", list(others))]
                            for cname, cothers in cvs:
                                yield {"n": n, "pos": pos, "rothers": others, "cothers": cothers, "shape": [o, i, o, i], "fam": fam, "r": r,
                                       "k": k, "kind": "cp", "form": form}
                for shape in gen_targets:
                    for r in (1, 2):
                        for form in ("pairs", "choi"):
                            for cname, cothers in _col_variants(others):
                                yield {"n": n, "pos": pos, "rothers": others, "cothers": cothers, "shape": list(shape), "fam": fam, "r": r,
                                       "k": k, "kind": "gen", "form": form}


def _labelled(R, C, which):
    idx = np.arange(R * C, dtype=float).reshape(R, C)
    if which == 0:
        return (idx + 1) + 1j * ((idx * 7919 + 13) % 10007) / 100.0
    return catalog.generic_matrix(R, C, k=3)


def partial_check(case):
    from toqito.channel_ops import partial_channel

    shape = tuple(case["shape"])
    o_r, i_r, o_c, i_c = shape
    pos, n = case["pos"], case["n"]
    rdims = list(case["rothers"][:pos]) + [i_r] + list(case["rothers"][pos:])
    cdims = list(case["cothers"][:pos]) + [i_c] + list(case["cothers"][pos:])
    R, C = int(np.prod(rdims)), int(np.prod(cdims))
    pairs = ch.build_map(case)
    form = case["form"]
    if form == "choi" and R * C * o_r * o_c > 40000:
        return rejected("Choi form skipped: (x) of maximally entangled operators too large for the bound")  # never in the listed tiers
    phi = ch.to_form(pairs, form)
    fn = lambda M: ch.apply_pairs(pairs, M)  # noqa: E731
    dimforms = ["2row", "2row_nd"]
    if rdims == cdims:
        dimforms += ["flat", "flat_nd"]
    if n == 2 and pos == 1 and rdims == cdims and rdims[0] == rdims[1]:
        dimforms += ["none", "none_default_sys"]
    calls = 0
    last = None

    def run(rho, df):
        if df == "2row":
            return call(partial_channel, rho, phi, pos + 1, [list(rdims), list(cdims)])
        if df == "2row_nd":
            return call(partial_channel, rho, phi, pos + 1, np.array([rdims, cdims]))
        if df == "flat":
            return call(partial_channel, rho, phi, pos + 1, list(rdims))
        if df == "flat_nd":
            return call(partial_channel, rho, phi, pos + 1, np.array(rdims))
        if df == "none":
            return call(partial_channel, rho, phi, pos + 1)
        return call(partial_channel, rho, phi)

    for which in (0, 1):
        rho = _labelled(R, C, which)
        exp = ch.partial_apply(rho, fn, rdims, cdims, pos, o_r, o_c)
        for df in dimforms:
            got, exc = run(rho.copy(), df)
            calls += 1
            if exc is not None:
                return viol(f"partial_channel raised ({form} form, dim form {df}): " + exc_text(exc), site=f"partial_channel:{form}:exception")
            if not ch.close(got, exp):
                return viol(f"partial_channel != (id (x) Phi (x) id)(rho) on a labelled rho ({form} form, dim form {df})",
                            site=f"partial_channel:{form}", observed=np.asarray(got), expected=exp)
            last = got
    # full product basis of the multipartite space (every E_rc is a product of matrix units of the factors)
    limit = 36
    if R * C <= limit:
        for r_ in range(R):
            for c_ in range(C):
                for sc in (1,):  # i-multiples are covered by the complex labelled rho above
                    rho = ch.unit(R, C, r_, c_, sc)
                    exp = ch.partial_apply(rho, fn, rdims, cdims, pos, o_r, o_c)
                    got, exc = run(rho, "2row")
                    calls += 1
                    if exc is not None:
                        return viol(f"partial_channel raised on a basis operator ({form} form): " + exc_text(exc), site=f"partial_channel:{form}:exception")
                    if not ch.close(got, exp):
                        return viol(f"partial_channel != id (x) Phi (x) id on basis operator E[{r_},{c_}]*{sc} ({form} form)",
                                    site=f"partial_channel:{form}", observed=np.asarray(got), expected=exp)
    J = ch.choi_pairs(pairs)
    nontriv = ch.discriminating(J, shape) and (n > 1) and (max(case["rothers"] + case["cothers"]) > 1)
    return ok(nontriv, obs=cksum(last), calls=calls)


# ================================================================================================ C04.natural
def natural_cases(tier, seed):
    D = dims_alphabet(tier)
    for o, i in sorted(itertools.product(D, repeat=2), key=lambda s: (max(s), sum(s), s)):
        for a, b, s in _basis_ops(o, i):
            yield {"shape": [o, i, o, i], "src": "unit", "K": [a, b, s]}
        for a, b, s in _basis_ops(o, i):
            for a2, b2, s2 in _basis_ops(o, i):
                if (a, b, s) < (a2, b2, s2) and max(o, i) <= 3:
                    yield {"shape": [o, i, o, i], "src": "unit2", "K": [a, b, s], "K2": [a2, b2, s2]}
        for fam in ch.FAMILIES + ("genr",):
            for r in (1, 2, 3, 4):
                for k in (0, 1):
                    yield {"shape": [o, i, o, i], "src": "map", "fam": fam, "r": r, "k": k, "kind": "cp"}
    # documented rejection: operators of different shapes
    for (s1, s2) in [((2, 2), (2, 3)), ((2, 2), (3, 2)), ((1, 2), (2, 1)), ((3, 3), (2, 2))]:
        yield {"src": "mismatch", "s1": list(s1), "s2": list(s2), "shape": [s1[0], s1[1], s1[0], s1[1]]}


def natural_check(case):
    from toqito.channel_ops import natural_representation

    if case["src"] == "mismatch":
        ops = [ch._gauss(*case["s1"], 1), ch._gauss(*case["s2"], 2)]
        got, exc = call(natural_representation, ops)
        if exc is None:
            return viol("natural_representation accepted Kraus operators of different shapes (documented ValueError)", site="natural_representation:reject")
        if isinstance(exc, ValueError):
            return ok(True, obs=None)
        return viol("natural_representation raised a non-ValueError on mismatched shapes: " + exc_text(exc), site="natural_representation:reject")
    shape = tuple(case["shape"])
    o, i = shape[0], shape[1]
    if case["src"] == "unit":
        K = _mk(o, i, case["K"])
        pairs = [(K, K.copy())]
    elif case["src"] == "unit2":
        K, K2 = _mk(o, i, case["K"]), _mk(o, i, case["K2"])
        S = K + (2 - 1j) * K2  # superposition: cross terms K (x) conj(K2) expose a misplaced conjugate
        pairs = [(S, S.copy())]
    else:
        pairs = ch.build_map(case)
    N, exc = call(natural_representation, ch.to_form(pairs, "flat"))
    if exc is not None:
        return viol("natural_representation raised on a flat Kraus list: " + exc_text(exc), site="natural_representation:exception")
    N = np.asarray(N)
    if N.shape != (o * o, i * i):
        return viol(f"natural representation has shape {N.shape}, expected {(o * o, i * i)}", site="natural_representation:shape")
    if not ch.close(N, ch.natural_pairs(pairs)):
        return viol("natural_representation != sum_t K_t (x) conj(K_t)", site="natural_representation:matrix", observed=N, expected=ch.natural_pairs(pairs))
    for name, X in x_inputs(i, i):
        if not ch.close(N @ ch.vec_row(X), ch.vec_row(ch.apply_pairs(pairs, X))):
            return viol(f"K vec_r({name}) != vec_r(Phi({name})) with row-major vec", site="natural_representation:action", observed=N)
    return ok(ch.discriminating(ch.choi_pairs(pairs), shape), obs=cksum(N), calls=1)


# ================================================================================================ C04.channel_dim
def cdim_cases(tier, seed):
    D = dims_alphabet(tier)
    # Kraus descriptions
    for o, i in itertools.product(D, repeat=2):
        for r in (1, 2, 3, 4):
            for form in ch.forms_for(True, r):
                if form == "choi":
                    continue
                for allow_rect in (True, False):
                    for dimarg in ("none", "mat", "vec", "int", "vec_nd", "bad_vec", "bad_mat"):
                        if dimarg == "int" and o != i:
                            continue
                        yield {"what": "kraus", "shape": [o, i, o, i], "r": r, "form": form, "allow_rect": allow_rect, "dimarg": dimarg}
    for shape in shapes4(tier):
        o_r, i_r, o_c, i_c = shape
        if (o_r, i_r) == (o_c, i_c):
            continue
        for r in (1, 2, 3):
            for allow_rect in (True, False):
                for dimarg in ("none", "mat", "bad_mat", "bad_vec"):
                    yield {"what": "kraus", "shape": list(shape), "r": r, "form": "pairs", "allow_rect": allow_rect, "dimarg": dimarg}
    # inconsistent operator sizes
    for form in ("flat", "nested", "pairs"):
        for which in (1, 2):
            yield {"what": "kraus_inconsistent", "form": form, "which": which, "shape": [2, 3, 2, 3]}
    # Choi matrices
    for shape in shapes4(tier):
        o_r, i_r, o_c, i_c = shape
        for r in (1, 2):
            for allow_rect in (True, False):
                for env in (True, False):
                    for dimarg in choi_dim_forms(shape) + ["bad_none", "bad_mat"]:
                        if dimarg == "bad_none" and (_is_square_number(i_r * o_r) and _is_square_number(i_c * o_c)):
                            continue  # a perfect-square size is (documentedly) guessed as equal in/out dims: nothing to reject
                        yield {"what": "choi", "shape": list(shape), "r": r, "allow_rect": allow_rect, "env": env, "dimarg": dimarg}
    # unequal dimensions whose product is a perfect square: only the explicit dims distinguish them from a map M_n -> M_n (cf. seeded C05-10)
    for o, i in ((1, 4), (4, 1), (2, 8), (8, 2)):
        shape = (o, i, o, i)
        for dimarg in choi_dim_forms(shape):
            if dimarg != "none":
                yield {"what": "choi", "shape": list(shape), "r": 1, "allow_rect": True, "env": False, "dimarg": dimarg}
    for bad in ("3x2x1", "1d3"):
        yield {"what": "dim_too_big", "bad": bad, "shape": [2, 2, 2, 2]}


def _is_square_number(n):
    return int(round(n ** 0.5)) ** 2 == n


def _as_ints(x):
    return [int(v) for v in np.asarray(x).ravel()]


def cdim_check(case):
    from toqito.helper import channel_dim

    what = case["what"]
    shape = tuple(case["shape"])
    o_r, i_r, o_c, i_c = shape
    if what == "dim_too_big":
        dim = np.ones((3, 2), dtype=int) * 2 if case["bad"] == "3x2x1" else [2, 2, 2]
        got, exc = call(channel_dim, np.eye(4), dim=dim)
        if exc is None:
            return viol("channel_dim accepted a DIM larger than 2-by-2", site="channel_dim:reject")
        return ok(True) if isinstance(exc, ValueError) else viol("non-ValueError: " + exc_text(exc), site="channel_dim:reject")
    if what == "kraus_inconsistent":
        K1, K2, K3 = ch._gauss(2, 3, 1), ch._gauss(2, 3, 2), ch._gauss(3, 2, 3) if case["which"] == 1 else ch._gauss(2, 2, 3)
        if case["form"] == "flat":
            phi = [K1, K2, K3]
        elif case["form"] == "nested":
            phi = [[K1], [K2], [K3]]
        else:
            phi = [[K1, K1], [K2, K3]]
        got, exc = call(channel_dim, phi)
        if exc is None:
            return viol("channel_dim accepted Kraus operators of different sizes", site="channel_dim:reject_inconsistent", observed=str(got))
        return ok(True) if isinstance(exc, ValueError) else viol("non-ValueError: " + exc_text(exc), site="channel_dim:reject_inconsistent")
    square = (i_r == i_c and o_r == o_c)
    allow_rect = case["allow_rect"]
    da = case["dimarg"]
    if da in ("bad_vec",):
        dim = [i_r + 1, o_r]
    elif da == "bad_mat":
        dim = [[i_r, o_r], [i_c, o_c + 1]]
    elif da == "bad_none":
        dim = None
    else:
        dim = choi_dim_arg(shape, da)
    expect_reject = da.startswith("bad") or (not allow_rect and not square)
    if da in ("vec", "vec_nd") and not square:
        expect_reject = True
    if what == "kraus":
        r = case["r"]
        kind = "gen" if case["form"] == "pairs" else "cp"
        pairs = ch.build_map({"fam": "gauss", "shape": list(shape), "r": r, "k": 0, "kind": kind})
        phi = ch.to_form(pairs, case["form"])
        n_ops = r
        got, exc = call(channel_dim, phi, allow_rect, dim)
    else:
        pairs = ch.build_map({"fam": "gen", "shape": list(shape), "r": case["r"], "k": 0, "kind": "gen"})
        J = ch.choi_pairs(pairs)
        n_ops = int(np.sum(np.linalg.svd(J, compute_uv=False) > 1e-8))
        got, exc = call(channel_dim, J, allow_rect, dim, case["env"])
    if expect_reject:
        if exc is None:
            return viol(f"channel_dim returned {got} where the documented behaviour is an error (dim {da}, allow_rect={allow_rect})",
                        site="channel_dim:reject", observed=str(got))
        if isinstance(exc, ValueError):
            return ok(True, obs=None)
        return viol("channel_dim raised a non-ValueError: " + exc_text(exc), site="channel_dim:reject")
    if exc is not None:
        return viol(f"channel_dim raised on a consistent description ({what}, dim {da}): " + exc_text(exc), site="channel_dim:exception")
    d_in, d_out, d_env = got
    if allow_rect:
        if _as_ints(d_in) != [i_r, i_c] or _as_ints(d_out) != [o_r, o_c]:
            return viol("channel_dim: wrong input/output dimensions", site="channel_dim:dims", observed=[_as_ints(d_in), _as_ints(d_out)],
                        expected=[[i_r, i_c], [o_r, o_c]])
    else:
        if np.ndim(d_in) != 0 or np.ndim(d_out) != 0 or int(d_in) != i_r or int(d_out) != o_r:
            return viol("channel_dim(allow_rect=False) must return scalar dimensions", site="channel_dim:scalars", observed=str((d_in, d_out)),
                        expected=[i_r, o_r])
    if what == "kraus" or case["env"]:
        if d_env is None or int(d_env) != n_ops:
            return viol("channel_dim: wrong environment dimension", site="channel_dim:env", observed=str(d_env), expected=n_ops)
    return ok(len(set(shape)) > 1, obs=_as_ints(d_in) + _as_ints(d_out), calls=1)


# ================================================================================================ C04.reference
def ref_cases(tier, seed):
    yield {"run": "selfcheck"}


def ref_check(case):
    n = ch.selfcheck()  # raises AssertionError (harness error) if the reference formulations disagree
    return ok(False, obs=n, calls=0)


def _alpha(**fixed):
    def fn(tier, seed):
        D = dims_alphabet(tier)
        out = {"local_dims": list(D), "shapes(out_r,in_r,out_c,in_c)": len(D) ** 4, "families": list(ch.FAMILIES),
               "generic_elements": f"catalog.generic_matrix(r,c,k) with VERIF_SEED={seed}", "X_inputs": "E_ef, iE_ef, gauss, generic"}
        out.update(fixed)
        return out
    return fn


# ------------------------------------------------------------------------------------------------ C04.large
# Added after seeded change C04-5 (a term-by-term path taken only when (number of Kraus operators) x dimension > 128 ignored the right
# operators): maps whose Kraus families are large, in every list form, against the plain loop sum_i A_i X B_i^dagger.
def large_cases(tier, seed):
    for d in (6, 7, 8):
        yield {"kind": "transpose_pairs", "d": d}
    yield {"kind": "generic_pairs", "d": 12, "r": 13}
    yield {"kind": "generic_pairs", "d": 9, "r": 20}
    yield {"kind": "generic_flat", "d": 6, "r": 30}
    yield {"kind": "generic_nested", "d": 10, "r": 16}
    if tier == "thorough":
        yield {"kind": "transpose_pairs", "d": 12}
        yield {"kind": "generic_pairs", "d": 16, "r": 9}
        yield {"kind": "generic_pairs", "d": 4, "r": 40}


def large_check(case):
    from toqito.channel_ops import apply_channel, kraus_to_choi

    d = case["d"]
    if case["kind"] == "transpose_pairs":
        pairs = []
        for i in range(d):
            for j in range(d):
                e = np.zeros((d, d), dtype=complex)
                e[i, j] = 1
                pairs.append((e, e.T.copy()))  # sum_ij E_ij X E_ji^dagger... = X^T
    else:
        r = case["r"]
        pairs = []
        for t in range(r):
            a = catalog.generic_matrix(d, d, 10 + t)
            b = a if case["kind"] in ("generic_flat", "generic_nested") else catalog.generic_matrix(d, d, 100 + t)
            pairs.append((a, b))
    if case["kind"] == "generic_flat":
        form = [a for a, _ in pairs]
    elif case["kind"] == "generic_nested":
        form = [[a] for a, _ in pairs]
    else:
        form = [[a, b] for a, b in pairs]
    X = catalog.generic_matrix(d, d, 7)
    exp = sum(a @ X @ b.conj().T for a, b in pairs)
    got, exc = call(apply_channel, X.copy(), form)
    if exc is not None:
        return viol("apply_channel raised on a large Kraus family: " + exc_text(exc), site="apply_channel:large:exception")
    got = np.asarray(got)
    scale = max(1.0, float(np.abs(exp).max()))
    if got.shape != exp.shape or np.abs(got - exp).max() > 1e-9 * scale:
        return viol(f"apply_channel != sum_i A_i X B_i^dagger on a family of {len(pairs)} operators in dimension {d} ({case['kind']})",
                    site="apply_channel:large", observed=float(np.abs(got - exp).max()) if got.shape == exp.shape else list(got.shape))
    if case["kind"] == "transpose_pairs" and np.abs(got - X.T).max() > 1e-9:
        return viol("transpose map given by pairs [E_ij, E_ji] does not transpose", site="apply_channel:large:transpose")
    J, exc = call(kraus_to_choi, form)
    if exc is not None:
        return viol("kraus_to_choi raised on a large Kraus family: " + exc_text(exc), site="kraus_to_choi:large:exception")
    got2, exc = call(apply_channel, X.copy(), np.asarray(J))
    if exc is not None or np.abs(np.asarray(got2) - exp).max() > 1e-8 * scale:
        return viol("Choi form of a large Kraus family acts differently from the Kraus form", site="kraus_to_choi:large")
    return ok(True)


CLAUSES = [
    Clause("C04.rank1", rank1_cases, rank1_check, tol="alg", doc="product basis A in {E,iE} x B in {E,iE} x X in {E,iE}: apply (pairs, Choi, flat, nested), "
           "kraus_to_choi, choi_to_kraus, natural_representation vs reference, every shape (independent left/right)",
           alphabets=_alpha(A="E_ab, iE_ab", B="E_cd, iE_cd", dtype=["complex", "int64"])),
    Clause("C04.linearity", linearity_cases, linearity_check, tol="alg", doc="additivity over the Kraus list on all pairs of rank-1 basis maps (shapes in {1,2}^4); "
           "additivity/homogeneity in X on all pairs of basis inputs, every form"),
    Clause("C04.forms", forms_cases, forms_check, tol="alg", doc="rank 1-4 (8 for HP pairs) catalogue maps in flat/nested/row/pairs/Choi form: apply_channel, kraus_to_choi "
           "(default and sys=1), natural_representation", alphabets=_alpha(kinds=["gen", "cp", "hp", "neg"], ranks=[1, 2, 3, 4],
                                                                           forms=["flat", "nested", "row", "pairs", "choi"])),
    Clause("C04.choi_to_kraus", c2k_cases, c2k_check, tol="alg", doc="PSD / Hermitian indefinite / non-Hermitian / rectangular Choi matrices, every dim form: structure, "
           "shapes, count, action, re-application through apply_channel",
           alphabets=_alpha(sources=["catalogue maps", "raw_gauss", "raw_gen", "raw_herm", "raw_psd", "raw_realsym"],
                            dim_forms=["none", "int", "vec", "vec_nd", "mat", "mat_nd"])),
    Clause("C04.tol_cut", tol_cases, tol_check, tol="alg", doc="constructed spectra around the tol cut (margins >=100x both sides), eigh and SVD branches: count and truncated action",
           alphabets=_alpha(tols=TOLS, branches=["herm", "psd", "svd"], eigenbases=["I", "F", "XZ", "g0", "g1"], patterns="all keep/cut patterns for n<=4, prefixes+2 for larger")),
    Clause("C04.chain", chain_cases, chain_check, tol="alg", doc="Kraus->Choi->Kraus->Choi (3 rounds) returns the same Choi matrix"),
    Clause("C04.partial", partial_cases, partial_check, tol="alg", weight=0.02, doc="partial_channel = id (x) Phi (x) id at every position, surrounding dims {1,2,3}, all forms, all dim forms",
           alphabets=_alpha(subsystems="1..3 (4 over {1,2} in thorough)", surrounding=[1, 2, 3], column_dims=["same", "reversed", "d%3+1"],
                            cp_targets=CP_TARGETS_Q, pair_targets=GEN_TARGETS_Q, dim_forms=["2row", "2row_nd", "flat", "flat_nd", "none", "default sys"],
                            rho="two labelled complex operators + every matrix unit of the whole space when rows*cols<=36")),
    Clause("C04.natural", natural_cases, natural_check, tol="alg", doc="natural_representation K vec_r(X) = vec_r(Phi(X)); documented rejection of mismatched shapes"),
    Clause("C04.channel_dim", cdim_cases, cdim_check, tol="exact", doc="channel_dim on every Kraus form / Choi matrix, dim forms int/vector/2x2, allow_rect, env dim, rejections"),
    Clause("C04.reference", ref_cases, ref_check, tol="alg", probe=1, doc="reference formulations cross-checked against each other (no toqito call)"),
    Clause("C04.large", large_cases, large_check, tol="alg(1e-9)", chunk=1, weight=1.0, probe=1,
           doc="large Kraus families (up to 64 operators, dimension up to 12; pairs / flat / nested / Choi) vs the plain loop"),
]

# every toqito call of this property is repeated with column-major copies of its array arguments (engine.call, layout twin)
for _c in CLAUSES:
    _c.layout_twin = True
    _c.strided_twin = True  # and with strided read-only views (engine.call)
    # repeated calls agree; scribbling over a returned array must not affect later calls (engine.call); the basis-enumeration clauses
    # make hundreds of calls per case and are left out
    _c.repeat_twin = _c.name.split(".")[1] not in ('partial', 'linearity', 'rank1', 'large')
