"""C02 — partial trace is the index contraction over the traced subsystems (exact, full product over configurations).

out[(i_K),(j_K)] = sum_t X[(i_K,t),(j_K,t)], kept subsystems K in original order.  The main clause runs every
configuration on additive formal labels (Sym multisets, 256**idx Python ints) so that the *multiset of contracted
input cells* of every output entry is compared exactly, and on int64 / float64 / complex128 labellings for the
dtype-dependent paths.  Derived clauses: scalar / omitted dim, cvxpy Variable inputs, linearity on all pairs of
basis elements, trace preservation + Tr_S(kron A_k) on prime-filled factors, composition.
"""

from __future__ import annotations

import itertools

import numpy as np

from mc.engine import Clause, call, exc_text, ok, viol
from mc.ref import c02_labels as lb
from mc.ref import tensor_index as ti

RULE = ("case = (local dims, traced list S in a given listing order | bare int | omitted, dim form list/scalar/omitted, "
        "entry labelling or Variable kind[, basis index | split (S,T)]); every case of the listed alphabets is executed "
        "once (full product, nothing sampled); distinct by canonical JSON; non-trivial iff at least one traced and at "
        "least one kept subsystem have local dimension >= 2 (a real sum that a wrong axis choice would change); output "
        "compared entry by entry with a Python multi-index loop, on formal labels as exact multisets of input cells")
ASSUMPTIONS = [
    "numpy reshape/transpose/fancy indexing/np.sum(axis) perform no arithmetic other than '+' on the entries (checked by "
    "running every configuration on Sym formal sums, 256**idx Python ints and three numeric dtypes)",
    "shapes bounded: n<=4 subsystems (one n=5 vector in thorough), local dims in {1,2,3} plus a few with 4/5, matrix size "
    "N>=2 and N<=27 (quick) / <=48 (thorough); scalar-dim clause N<=12 (quick) / <=36 (thorough)",
    "cvxpy: Variable(real | complex=True | hermitian=True) with .value set; '.value' of the returned expression is compared "
    "(tolerance alg 1e-9 relative) for two different held arrays; N<=16",
    "domain: square matrices of size >=2; intermediate results of size 1 are never fed back (composition clause)",
    "dim given as numpy array / sys given as numpy array are not in the stated calling forms and are not judged",
]

SITE = "partial_trace"


# ------------------------------------------------------------------------------------------------ alphabets
def dims_alphabet(tier):
    out = []
    for n in (1, 2, 3):
        out += [list(d) for d in itertools.product((1, 2, 3), repeat=n)]
    out += [list(d) for d in itertools.product((1, 2), repeat=4)]
    if tier == "thorough":
        out += [list(d) for d in itertools.product((1, 2, 3), repeat=4) if 3 in d and ti.prod(d) <= 48]
        out += [[4, 2], [2, 4], [4, 3], [3, 4], [5, 2], [2, 5], [4, 4], [2, 4, 3], [4, 1, 3], [3, 2, 4], [2, 2, 2, 2, 2]]
    return [d for d in out if ti.prod(d) >= 2]


def sys_alphabet(n):
    """(sys argument as JSON, traced set) — every listing order, bare ints for singletons, omitted (= second subsystem)."""
    out = [(s, s) for s in lb.sublists_in_every_order(n)]
    out += [(k, [k]) for k in range(n)]
    if n >= 2:
        out.append((None, [1]))
    return out


def dim_forms(dims):
    forms = ["list"]
    if len(dims) == 2:
        forms.append("scalar")
        if dims[0] == dims[1]:
            forms.append("omitted")
    return forms


def dim_arg(dims, form):
    if form == "list":
        return list(dims)
    if form == "scalar":
        return int(dims[0])
    if form == "omitted":
        return None
    raise KeyError(form)


def nontrivial(dims, traced):
    tr = set(traced)
    return any(dims[k] >= 2 for k in tr) and any(dims[k] >= 2 for k in range(len(dims)) if k not in tr)


def run_pt(X, sys_, dim):
    """Call exactly as a user would: omitted arguments are really omitted."""
    from toqito.channels import partial_trace

    kw = {}
    if sys_ is not None:
        kw["sys"] = sys_
    if dim is not None:
        kw["dim"] = dim
    return call(partial_trace, X, **kw)


def small(x, limit=36):
    a = np.asarray(x)
    if a.size > limit:
        return None
    return [[repr(v) if a.dtype == object else v for v in row] for row in a.tolist()] if a.ndim == 2 else repr(a.tolist())


# ------------------------------------------------------------------------------------------------ C02.contraction
def contraction_cases(tier, seed):
    for dims in dims_alphabet(tier):
        n = len(dims)
        N = ti.prod(dims)
        ents = ("sym", "pow", "int", "intB", "float", "complex", "u8", "i8", "bool", "nearherm", "ctiny", "cscaled", "neardiag", "nearzero")
        if n >= 5:
            ents = ("pow", "complex")
        elif N > 27:
            ents = ("sym", "pow", "int", "complex")
        for sys_, traced in sys_alphabet(n):
            for form in dim_forms(dims):
                for ent in ents:
                    yield {"dims": dims, "sys": sys_, "dimform": form, "entries": ent}


def contraction_check(case):
    dims, sys_, form, ent = case["dims"], case["sys"], case["dimform"], case["entries"]
    traced = [1] if sys_ is None else ([sys_] if isinstance(sys_, int) else list(sys_))
    N = ti.prod(dims)
    X = lb.labelled(N, N, ent, additive=True)
    narrow = ent in ("u8", "i8", "bool")
    # narrow integer / boolean inputs: the entries of the result are the SUMS of the entries (exact Python integers), which leave
    # the input dtype's range - the oracle works on Python ints
    Xo = np.vectorize(int, otypes=[object])(X) if narrow else X
    exp = lb.ptrace_expected(Xo, dims, traced)
    got, exc = run_pt(X.copy(), sys_, dim_arg(dims, form))
    if exc is not None:
        return viol("partial_trace raised on an in-domain configuration: " + exc_text(exc), site=SITE + ":exception",
                    observed=exc_text(exc))
    if not lb.same_cells(got, exp):
        return viol("output is not the index contraction over the traced subsystems (kept subsystems in original order)",
                    site=SITE + ":value", observed=small(got), expected=small(np.array(exp, dtype=object)) if N <= 6 else None)
    # trace preservation (a direct consequence, checked on the exact labels)
    g = np.asarray(got)
    g = g.reshape(len(exp), len(exp))
    if narrow:
        g, X = np.vectorize(int, otypes=[object])(g), Xo
    tr_out = g[0, 0]
    for k in range(1, g.shape[0]):
        tr_out = tr_out + g[k, k]
    tr_in = X[0, 0]
    for k in range(1, N):
        tr_in = tr_in + X[k, k]
    if not lb.plain(tr_out) == lb.plain(tr_in):
        return viol("trace not preserved", site=SITE + ":trace")
    return ok(nontrivial(dims, traced))


# ------------------------------------------------------------------------------------------------ C02.scalar_dim
def scalar_cases(tier, seed):
    nmax = 12 if tier == "quick" else 36
    for N in list(range(2, nmax + 1)) + [49, 98, 103]:  # 49, 98, 103: (1/N)*N != 1 in floating point (cf. seeded change C03-9)
        for d in range(1, N + 1):
            if N % d:
                continue
            forms = ["scalar"] + (["omitted"] if d * d == N else [])
            for form in forms:
                for sys_ in (None, 0, 1, [0], [1], [0, 1], [1, 0]):
                    for ent in (("pow", "int", "complex") if N <= 36 else ("int", "complex")):
                        yield {"N": N, "d": d, "sys": sys_, "dimform": form, "entries": ent}


def scalar_check(case):
    N, d, sys_, form, ent = case["N"], case["d"], case["sys"], case["dimform"], case["entries"]
    dims = [d, N // d]
    traced = [1] if sys_ is None else ([sys_] if isinstance(sys_, int) else list(sys_))
    X = lb.labelled(N, N, ent, additive=True)
    exp = lb.ptrace_expected(X, dims, traced)
    got, exc = run_pt(X.copy(), sys_, dim_arg(dims, form))
    if exc is not None:
        return viol(f"partial_trace raised with {form} dim: " + exc_text(exc), site=SITE + ":exception:" + form, observed=exc_text(exc))
    if not lb.same_cells(got, exp):
        return viol(f"{form} dim is not interpreted as [d, N/d] = {dims} (omitted sys = second subsystem)",
                    site=SITE + ":value:" + form, observed=small(got), expected=small(np.array(exp, dtype=object)) if N <= 6 else None)
    # same result as the explicit list form
    got2, exc = run_pt(X.copy(), traced, list(dims))
    if exc is not None:
        return viol("partial_trace raised with the equivalent list dim: " + exc_text(exc), site=SITE + ":exception", observed=exc_text(exc))
    if not lb.same_cells(got2, exp):
        return viol("list-dim call disagrees with the oracle", site=SITE + ":value")
    return ok(nontrivial(dims, traced), calls=2)


# ------------------------------------------------------------------------------------------------ C02.cvxpy
VARKINDS = ("real", "complex", "hermitian")


def cvx_cases(tier, seed):
    nmax = 12 if tier == "quick" else 16
    alphabet = dims_alphabet(tier)
    alphabet += [d for d in ([4, 4], [4, 3], [2, 6], [6, 2]) if d not in alphabet]
    for dims in alphabet:
        N = ti.prod(dims)
        if N > nmax:
            continue
        for sys_, traced in sys_alphabet(len(dims)):
            for form in dim_forms(dims):
                for kind in VARKINDS:
                    yield {"dims": dims, "sys": sys_, "dimform": form, "var": kind}


held_values = lb.held_values
make_variable = lb.make_variable


def cvx_check(case):
    from cvxpy.expressions.expression import Expression

    dims, sys_, form, kind = case["dims"], case["sys"], case["dimform"], case["var"]
    traced = [1] if sys_ is None else ([sys_] if isinstance(sys_, int) else list(sys_))
    N = ti.prod(dims)
    V = make_variable(N, N, kind)
    A = held_values(N, N, kind, 0)
    V.value = A
    expr, exc = run_pt(V, sys_, dim_arg(dims, form))
    if exc is not None:
        return viol("partial_trace raised on a cvxpy Variable: " + exc_text(exc), site=SITE + ":cvxpy_exception", observed=exc_text(exc))
    if not isinstance(expr, Expression):
        return viol(f"Variable input returned {type(expr).__name__}, not a cvxpy expression", site=SITE + ":cvxpy_type")
    for which in (0, 1):
        A = held_values(N, N, kind, which)
        V.value = A
        val, exc = call(lambda: expr.value)
        if exc is not None or val is None:
            return viol("'.value' of the returned expression unavailable: " + (exc_text(exc) if exc else "None"), site=SITE + ":cvxpy_value")
        exp = lb.ptrace_expected(A, dims, traced)
        if not lb.close_cells(val, exp):
            return viol(f"'.value' of the expression (held array #{which}) is not the index contraction", site=SITE + ":cvxpy_value",
                        observed=small(np.asarray(val)), expected=small(np.array(exp)))
        arr, exc = run_pt(A.copy(), sys_, dim_arg(dims, form))
        if exc is not None:
            return viol("ndarray call raised: " + exc_text(exc), site=SITE + ":exception", observed=exc_text(exc))
        if not lb.close_cells(arr, exp):
            return viol("ndarray result differs from the oracle (and hence from the Variable result)", site=SITE + ":value")
    return ok(nontrivial(dims, traced), calls=3)


# ------------------------------------------------------------------------------------------------ C02.linearity
def subsets_sorted_and_reversed(n):
    out = []
    for k in range(1, n + 1):
        for c in itertools.combinations(range(n), k):
            out.append(list(c))
            if k >= 2:
                out.append(list(c[::-1]))
    return out


def linearity_cases(tier, seed):
    nmax = 6 if tier == "quick" else 8
    for dims in dims_alphabet(tier):
        N = ti.prod(dims)
        if N > nmax or len(dims) > 3:
            continue
        for S in subsets_sorted_and_reversed(len(dims)):
            for a in range(N * N):
                yield {"dims": dims, "sys": S, "a": a}


def linearity_check(case):
    """Basis enumeration: Tr_S(E_ab) is the oracle's 0/1 pattern; Tr_S(i E_ab) = i Tr_S(E_ab); and for the fixed first
    element E_a and EVERY second basis element E_b: Tr_S(alpha E_a + beta E_b) = alpha Tr_S(E_a) + beta Tr_S(E_b)."""
    dims, S, a = case["dims"], case["sys"], case["a"]
    N = ti.prod(dims)
    alpha, beta = complex(2, 3), complex(-5, 7)

    def E(k, coef=1.0, dtype=complex):
        m = np.zeros((N, N), dtype=dtype)
        m[k // N, k % N] = coef
        return m

    def pt(M):
        got, exc = run_pt(M, S, list(dims))
        if exc is not None:
            raise _Raised(exc)
        return np.asarray(got)

    calls = 0
    try:
        Ta = pt(E(a))
        exp_a = lb.ptrace_expected(E(a), dims, S)
        calls += 1
        if not lb.same_cells(Ta, exp_a):
            return viol("Tr_S(E_ab) is not the oracle's basis image", site=SITE + ":basis", observed=small(Ta), expected=small(np.array(exp_a)))
        # integer dtype basis element (dtype-dependent path) and homogeneity under i (no spurious conjugation)
        Ti = pt(E(a, 1, np.int64))
        calls += 1
        if not lb.same_cells(Ti, [[int(round(v.real)) for v in row] for row in exp_a]):
            return viol("int64 basis element gives a different image", site=SITE + ":basis_int")
        Tj = pt(E(a, 1j))
        calls += 1
        if not np.array_equal(Tj, 1j * Ta):
            return viol("Tr_S(i E_ab) != i Tr_S(E_ab)", site=SITE + ":homogeneity", observed=small(Tj), expected=small(1j * Ta))
        for b in range(N * N):
            Tb = pt(E(b))
            Tab = pt(alpha * E(a) + beta * E(b))
            calls += 2
            if Tab.shape != Ta.shape or not np.array_equal(Tab, alpha * Ta + beta * Tb):
                return viol(f"not additive/homogeneous on the basis pair (a={a}, b={b})", site=SITE + ":linearity",
                            observed=small(Tab), expected=small(alpha * Ta + beta * Tb))
    except _Raised as r:
        return viol("partial_trace raised on a basis element: " + exc_text(r.exc), site=SITE + ":exception", observed=exc_text(r.exc))
    return ok(nontrivial(dims, S), calls=calls)


class _Raised(Exception):
    def __init__(self, exc):
        super().__init__(str(exc))
        self.exc = exc


# ------------------------------------------------------------------------------------------------ C02.kron
def kron_cases(tier, seed):
    for dims in dims_alphabet(tier):
        if len(dims) > 4:
            continue
        for S in subsets_sorted_and_reversed(len(dims)):
            for flavour in ("object", "int64", "complex"):
                yield {"dims": dims, "sys": S, "flavour": flavour}
        for k in range(len(dims)):
            yield {"dims": dims, "sys": k, "flavour": "object"}


def kron_check(case):
    """The statement literally: Tr_S(A_0 (x) ... (x) A_{n-1}) = prod_{k in S} Tr(A_k) * (x)_{k not in S} A_k on factors
    filled with pairwise distinct primes (exact integer arithmetic), and Tr is preserved."""
    dims, sys_, flavour = case["dims"], case["sys"], case["flavour"]
    S = [sys_] if isinstance(sys_, int) else list(sys_)
    n = len(dims)
    factors = ti.prime_factors([(d, d) for d in dims] * 2)
    re_f, im_f = factors[:n], factors[n:]
    if flavour == "complex":
        facs = [np.array(r, dtype=np.int64) + 1j * np.array(i, dtype=np.int64) for r, i in zip(re_f, im_f)]
        X = facs[0]
        for f in facs[1:]:
            X = np.kron(X, f)
        coef = complex(1, 0)
        for k in S:
            coef = coef * complex(np.trace(facs[k]))
        kept = [facs[k] for k in range(n) if k not in S]
        K = np.array([[1 + 0j]])
        for f in kept:
            K = np.kron(K, f)
        exp = (coef * K).tolist()
        tr_in = complex(np.trace(X))
        if max(abs(tr_in.real), abs(tr_in.imag), float(np.max(np.abs(X)))) >= 2 ** 50:
            return ok(False, skipped="entries too large for exact complex128")
    else:
        Xl = ti.kron_lists(re_f)
        coef = 1
        for k in S:
            coef *= sum(re_f[k][i][i] for i in range(dims[k]))
        kept = [re_f[k] for k in range(n) if k not in S]
        K = ti.kron_lists(kept) if kept else [[1]]
        exp = [[coef * v for v in row] for row in K]
        tr_in = sum(Xl[i][i] for i in range(len(Xl)))
        X = np.array(Xl, dtype=object)
        if flavour == "int64":
            if max(abs(tr_in), coef * max(max(r) for r in K)) >= 2 ** 62:
                return ok(False, skipped="entries exceed int64")
            X = X.astype(np.int64)
    # the two reference formulations (index contraction vs Kronecker factors) must agree before toqito is judged
    assert lb.ptrace_expected(X, dims, S) == [list(r) for r in exp], "reference models disagree (contraction vs factor oracle)"
    got, exc = run_pt(X, sys_, list(dims))
    if exc is not None:
        return viol("partial_trace raised on a Kronecker product: " + exc_text(exc), site=SITE + ":exception", observed=exc_text(exc))
    if not lb.same_cells(got, exp):
        return viol("Tr_S(kron A_k) != prod_{k in S} Tr(A_k) * kron_{k not in S} A_k", site=SITE + ":kron",
                    observed=small(got), expected=small(np.array(exp, dtype=object)))
    g = np.asarray(got).reshape(len(exp), len(exp))
    tr_out = sum(lb.plain(g[i, i]) for i in range(g.shape[0]))
    if not tr_out == tr_in:
        return viol("trace not preserved", site=SITE + ":trace", observed=repr(tr_out), expected=repr(tr_in))
    return ok(nontrivial(dims, S))


# ------------------------------------------------------------------------------------------------ C02.composition
def composition_cases(tier, seed):
    for dims in dims_alphabet(tier):
        n = len(dims)
        if n < 2 or n > 4:
            continue
        orders = lb.sublists_in_every_order(n)
        for S in orders:
            rest = [k for k in range(n) if k not in S]
            if ti.prod([dims[k] for k in rest]) < 2:
                continue  # the intermediate operator would be 1x1: outside the quantifier's domain
            for T in orders:
                if set(T) & set(S) or not set(T) <= set(rest):
                    continue
                if n == 4 and (S != sorted(S) and T != sorted(T)):
                    continue  # n=4: at least one of the two lists sorted (all ordered splits are still covered)
                for ent in ("pow", "complex"):
                    yield {"dims": dims, "S": S, "T": T, "entries": ent}


def composition_check(case):
    dims, S, T, ent = case["dims"], case["S"], case["T"], case["entries"]
    n = len(dims)
    N = ti.prod(dims)
    X = lb.labelled(N, N, ent, additive=True)
    rest = [k for k in range(n) if k not in S]
    rdims = [dims[k] for k in rest]
    T2 = [rest.index(k) for k in T]  # T re-indexed among the subsystems that remain after tracing S
    Y, exc = run_pt(X.copy(), list(S), list(dims))
    if exc is None:
        Z, exc = run_pt(np.asarray(Y), T2, rdims)
    if exc is not None:
        return viol("partial_trace raised in the two-step trace: " + exc_text(exc), site=SITE + ":exception", observed=exc_text(exc))
    U, exc = run_pt(X.copy(), list(S) + list(T), list(dims))
    if exc is not None:
        return viol("partial_trace raised on the union: " + exc_text(exc), site=SITE + ":exception", observed=exc_text(exc))
    exp = lb.ptrace_expected(X, dims, list(S) + list(T))
    if not lb.same_cells(Z, exp):
        return viol("tracing S then T (re-indexed) is not the contraction over S u T", site=SITE + ":composition",
                    observed=small(Z), expected=small(np.array(exp, dtype=object)) if N <= 6 else None)
    if not lb.same_cells(U, exp):
        return viol("tracing S u T in one call is not the contraction over S u T", site=SITE + ":value")
    return ok(nontrivial(dims, list(S) + list(T)) or nontrivial(dims, S), calls=3)


def _alph(tier, seed):
    ds = dims_alphabet(tier)
    return {"dims": len(ds), "max_subsystems": max(len(d) for d in ds), "max_size": max(ti.prod(d) for d in ds),
            "sys_forms": "every listing order of every non-empty subset + bare int + omitted",
            "dim_forms": ["list", "scalar", "omitted"], "entries": ["sym", "pow", "int", "intB", "float", "complex"],
            "variables": list(VARKINDS)}


# ------------------------------------------------------------------------------------------------ C02.many_subsystems
# Added after an independent seeder found a defect of the unchanged tree beyond the original bound: with nine or more subsystems the
# kept subsystems came out in hash-table order.  Qubit systems with 8..10 (thorough 11) subsystems, subsets chosen so that the
# complement is small and non-contiguous; oracle = numpy einsum on exact int64 labels (not the mechanism under test).
MANY_SYS = {8: [[0, 2, 3, 4, 5, 7], [1, 2, 3, 4, 5, 6], [7, 5, 4, 3, 2, 0]],
            9: [[0, 2, 3, 4, 5, 6, 8], [1, 2, 3, 4, 6, 7, 8], [0, 1, 3, 4, 5, 6, 7], [8, 6, 5, 4, 3, 2, 0]],
            10: [[0, 2, 3, 4, 5, 6, 7, 9], [1, 2, 3, 4, 5, 6, 7, 8], [0, 1, 2, 4, 5, 6, 7, 8], [9, 7, 6, 5, 4, 3, 2, 0], [2, 3, 4, 5, 6, 7, 8, 9]],
            11: [[0, 2, 3, 4, 5, 6, 7, 8, 10], [1, 2, 3, 4, 5, 6, 7, 8, 9]]}


def many_cases(tier, seed):
    # added after seeded change C02-9 (an argsort that is only order-preserving up to 16 elements)
    for n in (17, 20, 24) if tier == "quick" else (17, 18, 20, 24, 33):
        for places in ((3, 12, 13), (0, 1, n - 1), (n - 3, n - 2, n - 1), (5, n // 2, n - 2)):
            for vals in ((2, 3, 2), (3, 2, 2)):
                dims = [1] * n
                for pl, v in zip(places, vals):
                    dims[pl] = v
                for sys_ in ([7, places[1]], [places[0]], [places[2], places[0]], [places[1], 4, 9], list(range(1, n, 2))):
                    yield {"dims": dims, "sys": list(dict.fromkeys(sys_))}  # no repeated subsystem
    for n in (8, 9, 10) + ((11,) if tier == "thorough" else ()):
        for sys_ in MANY_SYS[n]:
            yield {"n": n, "sys": sys_}


def many_check(case):
    if "dims" in case:
        # many subsystems, most of them one-dimensional (the total size stays 12): the bookkeeping runs over 17..24 subsystems
        dims, sys_ = case["dims"], case["sys"]
        N = ti.prod(dims)
        X = lb.labelled(N, N, "complex", additive=True)
        exp = lb.ptrace_expected(X, dims, list(sys_))
        got, exc = run_pt(X.copy(), list(sys_), list(dims))
        if exc is not None:
            return viol(f"partial_trace raised on {len(dims)} subsystems: " + exc_text(exc), site=SITE + ":exception")
        if not lb.same_cells(got, exp):
            return viol(f"partial trace over {sys_} of {len(dims)} subsystems (dims {dims}) is not the index contraction with the kept subsystems in "
                        "their original order", site=SITE + ":many_subsystems", observed=small(got))
        return ok(True)
    n, sys_ = case["n"], case["sys"]
    dims = [2] * n
    N = 2 ** n
    idx = np.arange(N * N, dtype=np.int64).reshape(N, N)
    X = (idx * 7919 + 13) % 1000003 + 1
    kept = [k for k in range(n) if k not in sys_]
    lo, up = "abcdefghijk", "ABCDEFGHIJK"
    a = lo[:n]
    b = "".join(lo[k] if k in sys_ else up[k] for k in range(n))
    out = "".join(lo[k] for k in kept) + "".join(up[k] for k in kept)
    exp = np.einsum(f"{a}{b}->{out}", X.reshape(dims + dims)).reshape(2 ** len(kept), 2 ** len(kept))
    got, exc = run_pt(X.copy(), list(sys_), list(dims))
    if exc is not None:
        return viol("partial_trace raised on a many-qubit operator: " + exc_text(exc), site=SITE + ":exception")
    g = np.asarray(got)
    if g.shape != exp.shape or not np.array_equal(g.astype(np.int64), exp):
        return viol(f"partial trace over {sys_} of {n} qubits is not the index contraction (kept subsystems {kept} must stay in their original order)",
                    site=SITE + ":many_subsystems", observed=small(g), expected=small(exp))
    return ok(True)


CLAUSES = [
    Clause("C02.contraction", contraction_cases, contraction_check, alphabets=_alph,
           doc="partial_trace vs Python multi-index contraction on exact additive labels and numeric dtypes; trace preserved"),
    Clause("C02.scalar_dim", scalar_cases, scalar_check,
           doc="scalar dim d (every divisor of N) means [d, N/d]; omitted dim means two equal subsystems; omitted sys = second"),
    Clause("C02.cvxpy", cvx_cases, cvx_check, tol="alg", weight=0.01, chunk=40,
           doc="cvxpy Variable (real/complex/hermitian) input: .value of the returned expression = contraction = ndarray result, for two held arrays"),
    Clause("C02.linearity", linearity_cases, linearity_check, weight=0.05,
           doc="basis images E_ab, i*E_ab, and additivity/homogeneity on all ordered pairs of basis elements (N<=6 quick, <=8 thorough)"),
    Clause("C02.kron", kron_cases, kron_check,
           doc="Tr_S(kron A_k) = prod Tr(A_k) kron kept A_k on prime-filled factors (object/int64/complex); trace preserved"),
    Clause("C02.composition", composition_cases, composition_check,
           doc="tracing S then T (re-indexed, every listing order) = tracing S u T, for all ordered disjoint splits"),
    Clause("C02.many_subsystems", many_cases, many_check, chunk=1, weight=2.0, probe=1,
           doc="8..10 (thorough 11) qubits, non-contiguous kept subsystems, and 17..24 (33) subsystems most of which are one-dimensional: index contraction with the kept subsystems in their original order"),
]

# every toqito call of this property is repeated with column-major copies of its array arguments (engine.call, layout twin)
for _c in CLAUSES:
    _c.layout_twin = True
    _c.strided_twin = True  # and with strided read-only views (engine.call)
    # repeated calls agree; scribbling over a returned array must not affect later calls (engine.call); the basis-enumeration clauses
    # make hundreds of calls per case and are left out
    _c.repeat_twin = _c.name.split(".")[1] not in ('linearity', 'cvxpy', 'many_subsystems')
