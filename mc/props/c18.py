"""C18 — symmetric/antisymmetric projectors and combinatorial enumerators are exact (complete enumeration)."""

from __future__ import annotations

import itertools
import math

import numpy as np

from mc.engine import Clause, call, exc_text, ok, viol
from mc.ref import tensor_index as ti

RULE = ("case = (d, p, partial) for the projectors [all d,p in 1..4 with d^p<=256], a permutation or an ordered pair of "
        "permutations for perm_sign, a multiset for unique_perms, (n, argument form) for perfect_matchings; the whole "
        "stated space is enumerated; non-trivial iff p>=2 (projectors), permutation != identity, multiset has a repeated "
        "element, n>=4")
ASSUMPTIONS = ["numpy matmul / matrix_rank on matrices of size <= 256 with entries k/p! are exact to 1e-9",
               "reference permutation operators come from mc.ref.tensor_index (cross-checked in the selftest)"]
TOL = 1e-9


def dp_space():
    return [(d, p) for d in range(1, 5) for p in range(1, 5) if d**p <= 256]


def ref_perm_op(d, p, q):
    return np.array(ti.perm_matrix_for([d] * p, list(q)), dtype=float)


def inversions(perm):
    return sum(1 for i in range(len(perm)) for j in range(i + 1, len(perm)) if perm[i] > perm[j])


# ------------------------------------------------------------------------------------------------ projectors
def proj_cases(tier, seed):
    for d, p in dp_space():
        for which in ("sym", "anti"):
            for partial in (False, True):
                yield {"which": which, "d": d, "p": p, "partial": partial}


def proj_check(case):
    from toqito.perms import antisymmetric_projection, symmetric_projection

    d, p, which, partial = case["d"], case["p"], case["which"], case["partial"]
    fn = symmetric_projection if which == "sym" else antisymmetric_projection
    site = f"{fn.__name__}:" + ("partial" if partial else "full")
    n = d**p
    rank = math.comb(d + p - 1, p) if which == "sym" else math.comb(d, p)
    full, exc = call(fn, d, p, False)
    if exc is not None:
        return viol("raised: " + exc_text(exc), site=fn.__name__ + ":exception")
    full = np.asarray(full, dtype=float)
    if full.shape != (n, n):
        return viol(f"projection has shape {full.shape}, expected {(n, n)}", site=site, observed=list(full.shape))
    perms = list(itertools.permutations(range(p)))
    W = {q: ref_perm_op(d, p, q) for q in perms}
    sgn = {q: (-1) ** inversions(q) for q in perms}
    # independent reference projector
    ref = sum((W[q] if which == "sym" else sgn[q] * W[q]) for q in perms) / math.factorial(p)
    if not partial:
        if np.abs(full - full.T).max() > TOL:
            return viol("not Hermitian", site=site)
        if np.abs(full @ full - full).max() > TOL:
            return viol("not idempotent", site=site, observed=float(np.abs(full @ full - full).max()))
        r = int(np.linalg.matrix_rank(full, tol=1e-8))
        if r != rank or abs(np.trace(full) - rank) > 1e-8:
            return viol(f"rank/trace {r}/{np.trace(full):.6f}, expected {rank}", site=site, observed=float(np.trace(full)), expected=rank)
        for q in perms:
            target = full if which == "sym" else sgn[q] * full
            if np.abs(W[q] @ full - target).max() > TOL:
                return viol(f"permutation {q} does not act as {'identity' if which == 'sym' else 'its sign'} on the range",
                            site=site, observed=float(np.abs(W[q] @ full - target).max()))
        if np.abs(full - ref).max() > TOL:
            return viol("differs from (1/p!) sum_pi [sgn(pi)] W_pi", site=site, observed=float(np.abs(full - ref).max()))
        # orthogonality of the two projectors, and sum = identity for p = 2
        other_fn = antisymmetric_projection if which == "sym" else symmetric_projection
        other, exc = call(other_fn, d, p, False)
        if exc is not None:
            return viol("raised: " + exc_text(exc), site=other_fn.__name__ + ":exception")
        other = np.asarray(other, dtype=float)
        if p >= 2 and np.abs(full @ other).max() > TOL:
            return viol("P_sym P_anti != 0", site=site, observed=float(np.abs(full @ other).max()))
        if p == 2 and np.abs(full + other - np.eye(n)).max() > TOL:
            return viol("P_sym + P_anti != I for p = 2", site=site, observed=float(np.abs(full + other - np.eye(n)).max()))
        return ok(p >= 2, obs=float(np.trace(full)))
    # isometry form
    V, exc = call(fn, d, p, True)
    if exc is not None:
        return viol("partial form raised: " + exc_text(exc), site=fn.__name__ + ":exception")
    V = np.asarray(V)
    # the flag given as 1 / numpy bool (the docstring speaks of a "default value of 0") must select the same form, 0 the full projector
    # (added after seeded change C18-10: `partial is True`)
    for flag, want in ((1, V), (np.bool_(True), V), (0, full), (np.bool_(False), full)):
        alt, exc = call(fn, d, p, flag)
        if exc is not None:
            return viol(f"partial={flag!r} raised: " + exc_text(exc), site=fn.__name__ + ":exception")
        alt = np.asarray(alt)
        if alt.shape != np.asarray(want).shape or np.abs(alt - want).max(initial=0.0) > 1e-9:
            return viol(f"partial={flag!r} ({type(flag).__name__}) does not give the same result as partial={bool(flag)}",
                        site=fn.__name__ + ":partial_flag", observed=list(alt.shape), expected=list(np.asarray(want).shape))
    if V.ndim != 2 or V.shape[0] != n or V.shape[1] != rank:
        return viol(f"partial form has shape {V.shape}, expected ({n}, {rank}) (columns = orthonormal basis of the subspace)",
                    site=site, observed=list(V.shape), expected=[n, rank])
    V = V.astype(complex)
    if rank and np.abs(V.conj().T @ V - np.eye(rank)).max() > 1e-8:
        return viol("columns of the partial form are not orthonormal", site=site)
    if np.abs(V @ V.conj().T - ref).max() > 1e-8:
        return viol("V V^dagger is not the projector onto the (anti)symmetric subspace", site=site,
                    observed=float(np.abs(V @ V.conj().T - ref).max()))
    return ok(p >= 2, obs=[int(V.shape[0]), int(V.shape[1])])


# ------------------------------------------------------------------------------------------------ perm_sign
def sign_cases(tier, seed):
    for n in range(1, 7):
        for perm in itertools.permutations(range(1, n + 1)):
            for form in ("list", "ndarray"):
                yield {"perm": list(perm), "form": form}
            if n <= 5:
                # other container / dtype forms of the same permutation (unsigned and narrow integer arrays were added after seeded
                # change C18-9, whose pairwise differences wrapped around in the caller's unsigned dtype)
                for form in ("tuple", "uint8", "uint64", "int8"):
                    yield {"perm": list(perm), "form": form}


def sign_check(case):
    from toqito.perms import perm_sign

    perm = case["perm"]
    form = case["form"]
    arg = list(perm) if form == "list" else tuple(perm) if form == "tuple" else np.array(perm) if form == "ndarray" else np.array(perm, dtype=form)
    got, exc = call(perm_sign, arg)
    if exc is not None:
        return viol("perm_sign raised: " + exc_text(exc), site="perm_sign:exception")
    exp = (-1) ** inversions(perm)
    if abs(float(got) - exp) > TOL:
        return viol("perm_sign != (-1)^inversions", site="perm_sign:value", observed=float(got), expected=exp)
    return ok(perm != sorted(perm), obs=round(float(got), 9))


def mult_cases(tier, seed):
    for n in (2, 3, 4, 5):
        ps = list(itertools.permutations(range(1, n + 1)))
        for a in ps:
            for b in ps:
                yield {"a": list(a), "b": list(b)}


def mult_check(case):
    from toqito.perms import perm_sign

    a, b = case["a"], case["b"]
    comp = [a[b[k] - 1] for k in range(len(a))]  # (a o b)(k) = a(b(k)), 1-indexed
    sa, e1 = call(perm_sign, a)
    sb, e2 = call(perm_sign, b)
    sc, e3 = call(perm_sign, comp)
    for e in (e1, e2, e3):
        if e is not None:
            return viol("perm_sign raised: " + exc_text(e), site="perm_sign:exception")
    if abs(float(sa) * float(sb) - float(sc)) > TOL:
        return viol("sign is not multiplicative", site="perm_sign:multiplicative", observed=[float(sa), float(sb), float(sc)])
    return ok(a != sorted(a) and b != sorted(b))


# ------------------------------------------------------------------------------------------------ unique_perms
def multiset_cases(tier, seed):
    alpha = 3 if tier == "quick" else 6
    for size in range(1, 7):
        for ms in itertools.combinations_with_replacement(range(1, alpha + 1), size):
            yield {"elements": list(ms), "order": "sorted"}
            if len(set(ms)) > 1:
                yield {"elements": list(ms[::-1]), "order": "reversed"}
    # values that are not 1..k (negative, zero, large)
    for ms in ([0, 0, 7], [-1, 5, -1, 5], [10, 10, 10, 2], [3, 1, 2, 1, 3, 1]):
        yield {"elements": ms, "order": "given"}


def multiset_check(case):
    from toqito.perms import unique_perms

    els = case["elements"]
    snapshot = list(els)
    # an enumeration that is started and abandoned must not disturb later ones (after seeded change C18-5: memoised mutable counters)
    pending, exc0 = call(lambda e: next(iter(unique_perms(e))), els)
    if exc0 is not None:
        return viol("unique_perms raised: " + exc_text(exc0), site="unique_perms:exception")
    got, exc = call(lambda e: list(unique_perms(e)), els)
    if exc is not None:
        return viol("unique_perms raised: " + exc_text(exc), site="unique_perms:exception")
    if els != snapshot:
        return viol("unique_perms modified the caller's list", site="unique_perms:aliasing")
    got_t = [tuple(int(x) for x in g) for g in got]
    exp = set(itertools.permutations(els))
    if len(got_t) != len(set(got_t)):
        return viol("a rearrangement is listed more than once", site="unique_perms:duplicates", observed=len(got_t), expected=len(exp))
    if set(got_t) != exp:
        return viol("set of rearrangements differs from the distinct permutations of the multiset", site="unique_perms:set",
                    observed=len(got_t), expected=len(exp))
    # two interleaved enumerations of the same multiset (zip) must both be complete
    if len(els) <= 5:
        inter, exc = call(lambda e: [(a, b) for a, b in zip(unique_perms(e), unique_perms(e))], els)
        if exc is not None or len(inter) != len(exp) or any(tuple(a) != tuple(b) for a, b in inter):
            return viol("two interleaved enumerations of the same multiset disturb each other", site="unique_perms:interleaved",
                        observed=None if exc is not None else len(inter), expected=len(exp))
    # second enumeration must give the same (the helper restores its counters)
    again, exc = call(lambda e: list(unique_perms(e)), els)
    if exc is not None or [tuple(int(x) for x in g) for g in again] != got_t:
        return viol("second enumeration differs from the first", site="unique_perms:repeat")
    return ok(len(set(els)) < len(els), obs=len(got_t))


# ------------------------------------------------------------------------------------------------ perfect_matchings
def matching_cases(tier, seed):
    for n in range(1, 11):
        for form in ("int", "list", "ndarray", "labels"):
            yield {"n": n, "form": form}
    if tier == "thorough":
        yield {"n": 12, "form": "int"}


def matching_check(case):
    from toqito.perms import perfect_matchings

    n, form = case["n"], case["form"]
    objs = list(range(n))
    if form == "int":
        arg = n
    elif form == "list":
        arg = list(objs)
    elif form == "ndarray":
        arg = np.array(objs)
    else:
        objs = [3 * k + 5 for k in range(n)][::-1]  # arbitrary distinct labels, not sorted
        arg = list(objs)
    got, exc = call(perfect_matchings, arg)
    if exc is not None:
        return viol("perfect_matchings raised: " + exc_text(exc), site="perfect_matchings:exception")
    got = np.asarray(got)
    if n % 2 == 1:
        if got.size != 0:
            return viol("odd n must have no perfect matchings", site="perfect_matchings:odd", observed=got.tolist())
        return ok(False)
    rows = np.atleast_2d(got)
    expect = 1
    for k in range(n - 1, 0, -2):
        expect *= k
    if rows.shape != (expect, n):
        return viol(f"expected {(expect, n)} matchings array, got {rows.shape}", site="perfect_matchings:count",
                    observed=list(rows.shape), expected=[expect, n])
    seen = set()
    for r in rows.tolist():
        if sorted(r) != sorted(objs):
            return viol("a row is not a grouping of all objects", site="perfect_matchings:row", observed=r)
        pairs = frozenset(frozenset((r[2 * k], r[2 * k + 1])) for k in range(n // 2))
        if pairs in seen:
            return viol("a perfect matching is listed twice", site="perfect_matchings:duplicate", observed=r)
        seen.add(pairs)
    if len(seen) != expect:
        return viol("not all (n-1)!! matchings listed", site="perfect_matchings:count", observed=len(seen), expected=expect)
    return ok(n >= 4, obs=len(seen))


CLAUSES = [
    Clause("C18.projectors", proj_cases, proj_check, tol="alg(1e-9)", chunk=1, weight=0.5,
           doc="Hermitian idempotent, rank binomial, W_pi P = [sgn] P for every pi, orthogonality, p=2 sum, isometry forms"),
    Clause("C18.perm_sign", sign_cases, sign_check, tol="alg(1e-9)", doc="(-1)^inversions for all permutations of <= 6 elements (1-indexed)"),
    Clause("C18.sign_multiplicative", mult_cases, mult_check, tol="alg(1e-9)", doc="all ordered pairs for n <= 5"),
    Clause("C18.unique_perms", multiset_cases, multiset_check, doc="each distinct rearrangement exactly once; caller's list untouched"),
    Clause("C18.perfect_matchings", matching_cases, matching_check, doc="(n-1)!! distinct perfect matchings; int/list/ndarray forms; odd n"),
]

# every toqito call of this property is repeated with column-major copies of its array arguments (engine.call, layout twin)
for _c in CLAUSES:
    _c.layout_twin = True
    _c.strided_twin = True  # and with strided read-only views (engine.call)
    _c.repeat_twin = True  # repeated calls agree; scribbling over a returned array must not affect later calls (engine.call)
