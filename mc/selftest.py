"""setup_cmd: validates the reference models against each other and the JSON files, offline."""

from __future__ import annotations

import itertools
import json
import os
import sys

VERIF = os.path.dirname(os.path.dirname(os.path.abspath(__file__)))


def _tensor_index():
    import numpy as np

    from mc.ref import tensor_index as ti

    n_checked = 0
    for n in (1, 2, 3):
        for dims in itertools.product((1, 2, 3), repeat=n):
            for q in itertools.permutations(range(n)):
                # index oracle vs factor oracle (distinct primes => exact)
                fs = ti.prime_factors([(d, 1) for d in dims])
                v = [r[0] for r in ti.kron_lists(fs)]
                exp = [r[0] for r in ti.kron_lists([fs[k] for k in q])]
                src = ti.gather_for_perm(list(dims), list(q))
                assert [v[s] for s in src] == exp, (dims, q)
                P = np.array(ti.perm_matrix_for(list(dims), list(q)))
                assert (P @ np.array(v) == np.array(exp)).all()
                n_checked += 1
    # partial trace reference vs numpy einsum on small shapes
    for dims in itertools.product((1, 2, 3), repeat=3):
        N = ti.prod(dims)
        X = np.arange(N * N).reshape(N, N) * 3 + 1
        T = X.reshape(dims + dims)
        for S in ([0], [1], [2], [0, 1], [0, 2], [1, 2], [0, 1, 2]):
            ref = ti.partial_trace_ref(lambda r, c: int(X[r, c]), list(dims), S)
            ref = np.array([[sum(cell) for cell in row] for row in ref])
            letters = "abc"
            up = "ABC"
            a = "".join(letters[k] for k in range(3))
            b = "".join(letters[k] if k in S else up[k] for k in range(3))
            out = "".join(letters[k] for k in range(3) if k not in S) + "".join(up[k] for k in range(3) if k not in S)
            e = np.einsum(f"{a}{b}->{out}", T)
            kd = ti.prod([dims[k] for k in range(3) if k not in S])
            assert (e.reshape(kd, kd) == ref).all(), (dims, S)
            n_checked += 1
    return n_checked


def main(repo: str) -> int:
    import jsonschema  # noqa: F401  (present in /venv? fall back silently)

    n = _tensor_index()
    with open(os.path.join(VERIF, "MANIFEST.json")) as fh:
        man = json.load(fh)
    try:
        with open("/root/.vp/MANIFEST.schema.json") as fh:
            jsonschema.validate(man, json.load(fh))
    except FileNotFoundError:
        pass
    with open(os.path.join(VERIF, "known_findings.json")) as fh:
        kf = json.load(fh)
    from mc import findings, findings_models  # noqa: F401

    for e in kf:
        if e.get("status") == "open":
            assert e.get("input_class_fn") in findings.INPUT_CLASSES, e
            assert e.get("as_is") in findings.AS_IS, e
    for extra in ("mc.ref.selfcheck_extra",):
        try:
            mod = __import__(extra, fromlist=["main"])
        except ImportError:
            continue
        n += mod.main()
    print(f"selftest ok: {n} reference cross-checks, manifest valid, {len(kf)} known-finding entries")
    return 0


if __name__ == "__main__":
    sys.exit(main("/repo"))
