"""Exploration kernel: clauses, exhaustive case enumeration, sharding, evidence, known findings.

A property module (mc/props/cNN.py) exposes ``CLAUSES``: a list of :class:`Clause`.  A clause enumerates a
finite space of JSON-serialisable *cases* and decides each one with ``check(case)`` which calls the real
toqito code and an independent oracle.  Nothing is sampled: every case of the space of the selected tier
is executed.  Results are merged in case order so the outcome does not depend on worker scheduling.
"""

from __future__ import annotations

import hashlib
import importlib
import json
import math
import os
import sys
import time
import traceback
from concurrent.futures import ProcessPoolExecutor
from dataclasses import dataclass, field
from typing import Any, Callable, Iterable

VERIF = os.path.dirname(os.path.dirname(os.path.abspath(__file__)))

OK, VIOL, INDET, REJ, NOVERDICT, HERR = "ok", "violation", "indeterminate", "rejected", "no_verdict", "harness_error"

LEVELS = {"C07": "model_checking", "C12": "model_checking", "C19": "model_checking"}


# ------------------------------------------------------------------------------------------------ results
def ok(nontrivial: bool = True, obs: Any = None, **info) -> dict:
    return {"status": OK, "nontrivial": bool(nontrivial), "obs": obs, "info": info}


def viol(detail: str, site: str = "", observed: Any = None, expected: Any = None, nontrivial: bool = True, **info) -> dict:
    return {
        "status": VIOL,
        "nontrivial": bool(nontrivial),
        "detail": detail,
        "site": site,
        "observed": jsonable(observed),
        "expected": jsonable(expected),
        "obs": jsonable(observed),
        "info": info,
    }


def indet(reason: str, **info) -> dict:
    return {"status": INDET, "nontrivial": False, "detail": reason, "obs": None, "info": info}


def rejected(reason: str = "", **info) -> dict:
    return {"status": REJ, "nontrivial": False, "detail": reason, "obs": None, "info": info}


def no_verdict(reason: str, **info) -> dict:
    return {"status": NOVERDICT, "nontrivial": False, "detail": reason, "obs": None, "info": info}


def jsonable(x: Any) -> Any:
    """Best-effort conversion of numpy things to JSON."""
    try:
        import numpy as np
    except Exception:  # pragma: no cover
        np = None
    if x is None or isinstance(x, (bool, int, str)):
        return x
    if isinstance(x, float):
        return x if math.isfinite(x) else repr(x)
    if isinstance(x, complex):
        return {"re": x.real, "im": x.imag}
    if np is not None:
        if isinstance(x, np.generic):
            return jsonable(x.item())
        if isinstance(x, np.ndarray):
            if x.size > 64:
                return {"shape": list(x.shape), "digest": hashlib.sha1(np.ascontiguousarray(x).tobytes()).hexdigest()[:16]}
            return jsonable(x.tolist())
    if isinstance(x, dict):
        return {str(k): jsonable(v) for k, v in x.items()}
    if isinstance(x, (list, tuple)):
        return [jsonable(v) for v in x]
    return repr(x)


def case_key(case: dict) -> str:
    return hashlib.sha1(json.dumps(case, sort_keys=True, default=str).encode()).hexdigest()[:16]


ALIASING: list = []  # filled by call(): (function name, argument position/name) whenever a call changed one of its arguments


def _snap(x, depth=0):
    """Snapshot of array / list arguments (None for things we do not track)."""
    import numpy as np

    if isinstance(x, np.ndarray):
        return ("a", x.shape, x.dtype.str, x.tobytes() if x.dtype != object else tuple(map(repr, x.ravel().tolist())))
    if isinstance(x, (list, tuple)) and depth < 3 and len(x) <= 64:
        return ("l", type(x).__name__, tuple(_snap(v, depth + 1) for v in x))
    if isinstance(x, (bool, int, float, complex, str)) or x is None:
        return ("s", repr(x))
    return None


REPEAT_TWIN = False  # set per clause by run_one (Clause.repeat_twin): call again, scribble over the first result, call a third time
REPEAT: list = []
LAYOUT_TWIN = False  # set per clause by run_one (Clause.layout_twin)
STRIDED_TWIN = False  # set per clause by run_one (Clause.strided_twin)
LAYOUT: list = []    # filled by call(): function names whose result changed when array arguments were passed column-major


def _fortran(x, depth=0):
    """Column-major twin of an argument: same values, different memory layout (returns (twin, changed))."""
    import numpy as np

    if isinstance(x, np.ndarray) and x.ndim == 2 and min(x.shape) > 1 and not x.flags.f_contiguous:
        return np.asfortranarray(x), True
    if isinstance(x, list) and depth < 3 and len(x) <= 64:
        ys = [_fortran(v, depth + 1) for v in x]
        if any(c for _, c in ys):
            return [y for y, _ in ys], True
    return x, False


def _strided(x, depth=0):
    """Strided, read-only twin of an argument: the same values seen through a view with steps (2, 2) into a larger buffer filled with
    junk - neither C- nor F-contiguous, not writeable.  Returns (twin, changed)."""
    import numpy as np

    if isinstance(x, np.ndarray) and x.ndim in (1, 2) and x.size > 1 and x.dtype != object:
        big = np.ones(tuple(2 * n for n in x.shape), dtype=x.dtype)
        view = big[::2] if x.ndim == 1 else big[::2, ::2]
        view[...] = x
        view.flags.writeable = False
        return view, True
    if isinstance(x, list) and depth < 3 and len(x) <= 64:
        ys = [_strided(v, depth + 1) for v in x]
        if any(c for _, c in ys):
            return [y for y, _ in ys], True
    return x, False


def _equalish(a, b, depth=0, rtol=1e-9, atol=1e-11) -> bool:
    import numpy as np

    if isinstance(a, np.ndarray) or isinstance(b, np.ndarray):
        try:
            a, b = np.asarray(a), np.asarray(b)
            if a.shape != b.shape:
                return False
            if a.dtype == object or b.dtype == object:
                return all(x == y for x, y in zip(a.ravel().tolist(), b.ravel().tolist()))
            return bool(np.allclose(a, b, rtol=rtol, atol=atol, equal_nan=True))
        except Exception:  # noqa: BLE001
            return True
    if isinstance(a, (list, tuple)) and isinstance(b, (list, tuple)) and depth < 4:
        return len(a) == len(b) and all(_equalish(x, y, depth + 1, rtol, atol) for x, y in zip(a, b))
    if isinstance(a, (bool, int, float, complex)) and isinstance(b, (bool, int, float, complex)):
        try:
            return bool(np.isclose(a, b, rtol=rtol, atol=atol, equal_nan=True))
        except Exception:  # noqa: BLE001
            return True
    return True  # objects we cannot compare (expressions, generators, game objects) are not judged


def _random_by_design(fn, a, k) -> bool:
    """Functions whose documented behaviour is to draw random numbers (excluded from the repeat twin)."""
    name = getattr(fn, "__name__", "")
    if name.startswith("random_") or name in ("perturb_vectors",):
        return True
    if name == "pauli_channel" and a and isinstance(a[0], int):  # an integer first argument asks for a random probability vector
        return True
    return False


def call(fn: Callable, *a, **k):
    """Call toqito; returns (value, None) or (None, exception).

    When the clause opts in (Clause.layout_twin) the call is repeated with every 2-D array argument passed column-major
    (np.asfortranarray) and once more with every 1-D / 2-D array argument passed as a strided, read-only view into a larger buffer:
    the same mathematical input must give the same result; a difference is recorded in LAYOUT and becomes a violation with site
    '<fn>:memory_layout'.

    Every ndarray / list argument is snapshotted before the call and compared afterwards: a function that modifies its
    caller's arguments is recorded in ALIASING and the engine turns the case into a violation with site '<fn>:aliasing'.
    """
    before = [(i, _snap(v)) for i, v in enumerate(a)] + [(n, _snap(v)) for n, v in k.items()]
    try:
        out = fn(*a, **k), None
    except Exception as e:  # noqa: BLE001 - the clause decides what an exception means
        out = None, e
    for (key, snap), v in zip(before, list(a) + list(k.values())):
        if snap is not None and _snap(v) != snap:
            ALIASING.append((getattr(fn, "__name__", repr(fn)), key))
    if REPEAT_TWIN and out[1] is None and not _random_by_design(fn, a, k):
        import copy as _copy
        import numpy as _np

        try:
            keep = _copy.deepcopy(out[0])
            # the experiment runs on COPIES of the arguments, so a function that returns (a view of) its input cannot make us
            # scribble over the clause's own objects
            second = fn(*_copy.deepcopy(list(a)), **_copy.deepcopy(dict(k)))
            if not _equalish(keep, second):
                REPEAT.append(getattr(fn, "__name__", repr(fn)) + ": second call with the same arguments returned a different result")
            else:
                # scribble over what the second call returned: a function that hands out a shared / cached object shows it now
                for arr in (second if isinstance(second, (list, tuple)) else [second]):
                    if isinstance(arr, _np.ndarray) and arr.flags.writeable and arr.dtype != object and arr.size:
                        arr[...] = 7
                third = fn(*_copy.deepcopy(list(a)), **_copy.deepcopy(dict(k)))
                if not _equalish(keep, third):
                    REPEAT.append(getattr(fn, "__name__", repr(fn)) + ": modifying a returned array in place changed what a later call returns")
        except Exception as e:  # noqa: BLE001
            REPEAT.append(getattr(fn, "__name__", repr(fn)) + " raised " + type(e).__name__ + " on a repeated call")
    if LAYOUT_TWIN and out[1] is None and not _random_by_design(fn, a, k):
        a2 = [_fortran(v) for v in a]
        k2 = {n: _fortran(v) for n, v in k.items()}
        if any(c for _, c in a2) or any(c for _, c in k2.values()):
            try:
                twin = fn(*[v for v, _ in a2], **{n: v for n, (v, _) in k2.items()})
                if not _equalish(out[0], twin):
                    LAYOUT.append(getattr(fn, "__name__", repr(fn)))
            except Exception as e:  # noqa: BLE001
                LAYOUT.append(getattr(fn, "__name__", repr(fn)) + " raised " + type(e).__name__)
        a3 = [_strided(v) if STRIDED_TWIN else (v, False) for v in a]
        k3 = {n: _strided(v) if STRIDED_TWIN else (v, False) for n, v in k.items()}
        if any(c for _, c in a3) or any(c for _, c in k3.values()):
            try:
                twin = fn(*[v for v, _ in a3], **{n: v for n, (v, _) in k3.items()})
                # a strided operand takes different BLAS / LAPACK paths (internal copies), so ill-conditioned functions (arccos near 1,
                # square roots of rank-deficient operators) differ by ~1e-8: the comparison is at 1e-6, the defects it is meant for
                # (data read through the wrong strides, in-place writes) are gross
                if not _equalish(out[0], twin, rtol=1e-6, atol=1e-6):
                    LAYOUT.append(getattr(fn, "__name__", repr(fn)) + " (strided read-only view)")
            except Exception as e:  # noqa: BLE001
                LAYOUT.append(getattr(fn, "__name__", repr(fn)) + " raised " + type(e).__name__ + " on a strided read-only view")
    return out


def is_deliberate_rejection(exc: BaseException) -> bool:
    """A ValueError/AssertionError raised by toqito's own code (not from inside numpy/scipy/cvxpy)."""
    if not isinstance(exc, (ValueError, AssertionError)):
        return False
    tb = traceback.extract_tb(exc.__traceback__)
    if not tb:
        return True
    last = tb[-1]
    # raised by a `raise` statement in toqito's own code (an error surfacing from numpy's C code also ends in a toqito frame)
    return "/toqito/" in last.filename.replace("\\", "/") and (last.line or "").lstrip().startswith("raise")


def exc_text(exc: BaseException) -> str:
    tb = traceback.extract_tb(exc.__traceback__)
    where = ""
    for fr in reversed(tb):
        if "/toqito/" in fr.filename:
            where = f" at {fr.filename.split('/toqito/')[-1]}:{fr.lineno}"
            break
    return f"{type(exc).__name__}: {str(exc)[:160]}{where}"


# ------------------------------------------------------------------------------------------------ clause
@dataclass
class Clause:
    name: str
    cases: Callable[[str, int], Iterable[dict]]
    check: Callable[[dict], dict]
    tol: str = "exact"
    doc: str = ""
    probe: int = 4  # number of leading cases re-executed by the determinism probe
    chunk: int = 0  # cases per work item (0: automatic)
    layout_twin: bool = False  # repeat every toqito call with column-major array arguments and require the same result
    strided_twin: bool = False  # (with layout_twin) also repeat it with strided read-only views; not for ill-conditioned functions
    repeat_twin: bool = False  # repeat every toqito call, scribble over the returned arrays, call again: results must not change
    alphabets: Callable[[str, int], dict] | None = None
    weight: float = 0.0  # rough seconds per case (scheduling hint: heavy clauses first)


def load_property(pid: str):
    return importlib.import_module(f"mc.props.{pid.lower()}")


# ------------------------------------------------------------------------------------------------ workers
def _worker_init(repo: str, seed: int):
    _prepare_path(repo)
    os.environ["VERIF_SEED"] = str(seed)


def _prepare_path(repo: str):
    repo = os.path.abspath(repo)
    if repo in sys.path:
        sys.path.remove(repo)
    sys.path.insert(0, repo)


def _run_chunk(pid: str, clause_name: str, items: list) -> list:
    mod = load_property(pid)
    clause = next(c for c in mod.CLAUSES if c.name == clause_name)
    out = []
    for idx, case in items:
        out.append((idx, run_one(clause, case)))
    return out


def run_one(clause: Clause, case: dict) -> dict:
    global LAYOUT_TWIN, REPEAT_TWIN, STRIDED_TWIN
    t0 = time.time()
    del ALIASING[:]
    del LAYOUT[:]
    del REPEAT[:]
    LAYOUT_TWIN = bool(clause.layout_twin)
    STRIDED_TWIN = bool(clause.strided_twin)
    REPEAT_TWIN = bool(clause.repeat_twin)
    try:
        res = clause.check(case)
        if REPEAT and isinstance(res, dict) and res.get("status") != VIOL:
            res = viol(REPEAT[0], site=f"{REPEAT[0].split(':')[0].split()[0]}:repeat_call", observed=REPEAT[:4])
        if LAYOUT and isinstance(res, dict) and res.get("status") != VIOL:
            res = viol(f"{LAYOUT[0]}: result depends on the memory layout of an array argument (row-major copy vs column-major copy / strided read-only view of the same values)",
                       site=f"{LAYOUT[0].split()[0]}:memory_layout", observed=LAYOUT[:4])
        if ALIASING and isinstance(res, dict) and res.get("status") != VIOL:
            fname, key = ALIASING[0]
            res = viol(f"{fname} modified its caller's argument {key!r} (array / list passed by reference)", site=f"{fname}:aliasing",
                       observed=[list(map(str, x)) for x in ALIASING[:4]])
        if not isinstance(res, dict) or "status" not in res:
            res = {"status": HERR, "nontrivial": False, "detail": f"check returned {type(res).__name__}", "obs": None, "info": {}}
    except Exception as e:  # noqa: BLE001
        tb = traceback.extract_tb(e.__traceback__)
        through_toqito = any("/toqito/" in fr.filename for fr in tb)
        text = exc_text(e) + " | " + " <- ".join(f"{os.path.basename(fr.filename)}:{fr.lineno}" for fr in reversed(tb[-4:]))
        if through_toqito:
            res = viol("unexpected exception from toqito on an in-domain case: " + text, site="exception", observed=text)
        else:
            res = {"status": HERR, "nontrivial": False, "detail": "harness exception: " + text, "obs": None, "info": {}}
    res["t"] = time.time() - t0
    return res


# ------------------------------------------------------------------------------------------------ driver
def _same_obs(a, b, tol=1e-9) -> bool:
    if isinstance(a, (int, float)) and isinstance(b, (int, float)) and not isinstance(a, bool):
        return abs(a - b) <= tol * max(1.0, abs(a))
    if isinstance(a, list) and isinstance(b, list) and len(a) == len(b):
        return all(_same_obs(x, y, tol) for x, y in zip(a, b))
    if isinstance(a, dict) and isinstance(b, dict) and a.keys() == b.keys():
        return all(_same_obs(a[k], b[k], tol) for k in a)
    return a == b


def run_property(pid: str, tier: str, seed: int, repo: str, only_clause: str | None = None, jobs: int = 0) -> int:
    from mc import findings

    t_start = time.time()
    _prepare_path(repo)
    os.environ["VERIF_SEED"] = str(seed)
    mod = load_property(pid)
    clauses = [c for c in mod.CLAUSES if only_clause in (None, c.name, c.name.split(".", 1)[-1])]
    if not clauses:
        print(f"no clause matches {only_clause}")
        return 2
    jobs = jobs or int(os.environ.get("VERIF_JOBS", "0")) or min(16, os.cpu_count() or 1)

    # enumerate
    work = []  # (clause, [(idx, case)])
    per_clause_cases = {}
    for c in clauses:
        cases = list(c.cases(tier, seed))
        per_clause_cases[c.name] = cases
    futures = []
    results: dict[str, list] = {c.name: [None] * len(per_clause_cases[c.name]) for c in clauses}
    with ProcessPoolExecutor(max_workers=jobs, initializer=_worker_init, initargs=(repo, seed)) as ex:
        order = sorted(clauses, key=lambda c: -c.weight)
        for c in order:
            cases = per_clause_cases[c.name]
            n = len(cases)
            if n == 0:
                continue
            chunk = c.chunk or max(1, min(400, n // (jobs * 8) or 1))
            indexed = list(enumerate(cases))
            # round-robin striping so that expensive neighbours are spread over workers
            for start in range(0, n, chunk):
                futures.append((c, ex.submit(_run_chunk, pid, c.name, indexed[start : start + chunk])))
        # determinism probe: first `probe` cases of every clause again, in other work items
        probes = []
        for c in clauses:
            cases = per_clause_cases[c.name]
            k = min(c.probe, len(cases))
            if k:
                probes.append((c, ex.submit(_run_chunk, pid, c.name, list(enumerate(cases))[:k])))
        for c, f in futures:
            for idx, res in f.result():
                results[c.name][idx] = res
        probe_results = [(c, f.result()) for c, f in probes]

    # merge
    harness_errors = []
    violations = []  # (clause, idx, case, res)
    kf_hits: dict[str, int] = {}
    kf_first: dict[str, tuple] = {}
    clause_tables = {}
    distinct = set()
    distinct_nontrivial = set()
    evaluations = 0
    states = transitions = histories = 0
    samples = []
    notes = []
    for c in clauses:
        cases = per_clause_cases[c.name]
        tab = {"cases": len(cases), "nontrivial": 0, "ok": 0, "rejected": 0, "indeterminate": 0, "no_verdict": 0,
               "violations": 0, "known_finding_hits": 0, "tolerance": c.tol, "doc": c.doc, "elapsed_s_sum": 0.0}
        seen_local = set()
        for idx, (case, res) in enumerate(zip(cases, results[c.name])):
            evaluations += 1
            key = c.name + ":" + case_key(case)
            st = res["status"]
            tab["elapsed_s_sum"] += res.get("t", 0.0)
            info = res.get("info") or {}
            states += int(info.get("states", 0))
            transitions += int(info.get("transitions", info.get("calls", 1)))
            histories += int(info.get("histories", 0))
            if key not in seen_local:
                seen_local.add(key)
                distinct.add(key)
                if res.get("nontrivial") and st in (OK, VIOL):
                    distinct_nontrivial.add(key)
                    tab["nontrivial"] += 1
            if st == OK:
                tab["ok"] += 1
            elif st == REJ:
                tab["rejected"] += 1
            elif st == INDET:
                tab["indeterminate"] += 1
            elif st == NOVERDICT:
                tab["no_verdict"] += 1
                if len(notes) < 20:
                    notes.append(f"NOTE: property={pid} clause={c.name} no_verdict: {res.get('detail')} case={json.dumps(case, default=str)[:200]}")
            elif st == HERR:
                harness_errors.append((c.name, case, res))
            elif st == VIOL:
                kf = findings.match(pid, c.name, case, res)
                if kf:
                    kf_hits[kf] = kf_hits.get(kf, 0) + 1
                    kf_first.setdefault(kf, (c.name, case, res))
                    tab["known_finding_hits"] += 1
                else:
                    tab["violations"] += 1
                    violations.append((c.name, idx, case, res))
        if c.alphabets:
            try:
                tab["alphabets"] = c.alphabets(tier, seed)
            except Exception as e:  # noqa: BLE001
                tab["alphabets"] = {"error": repr(e)}
        tab["elapsed_s_sum"] = round(tab["elapsed_s_sum"], 2)  # sum of per-case elapsed time inside the workers (inflated on a loaded machine)
        clause_tables[c.name] = tab
        # samples: first, a middle one and the last case of every clause
        for idx in sorted({0, len(cases) // 2, len(cases) - 1} if cases else set()):
            r = results[c.name][idx]
            samples.append({"clause": c.name, "case": cases[idx], "status": r["status"], "obs": jsonable(r.get("obs"))})

    # determinism probe
    probed = 0
    for c, pr in probe_results:
        for idx, res2 in pr:
            res1 = results[c.name][idx]
            probed += 1
            if res1["status"] != res2["status"] or not _same_obs(res1.get("obs"), res2.get("obs")):
                harness_errors.append((c.name, per_clause_cases[c.name][idx],
                                       {"detail": f"determinism probe diverged: {res1.get('status')}/{res1.get('obs')} vs {res2.get('status')}/{res2.get('obs')}"}))

    # report
    for n in notes:
        print(n)
    for kf, cnt in sorted(kf_hits.items()):
        ent = findings.entry(kf)
        print(f"KNOWN-FINDING: property={pid} {kf} {ent.get('what', '')} [{cnt} case(s) this run]")
    exit_code = 0
    replay_dir = os.path.join(VERIF, "replays", pid)
    groups: dict = {}
    for cname, idx, case, res in violations:
        gkey = (cname, res.get("site") or "")
        groups.setdefault(gkey, []).append((idx, case, res))
    written = 0
    for (cname, site), members in groups.items():
        for idx, case, res in members[:2]:
            if written >= 40:
                break
            written += 1
            os.makedirs(replay_dir, exist_ok=True)
            path = os.path.join(replay_dir, f"{cname}-{case_key(case)}.json")
            with open(path, "w") as fh:
                json.dump({"property": pid, "clause": cname, "case": case, "detail": res.get("detail"), "site": res.get("site"),
                           "observed": res.get("observed"), "expected": res.get("expected"), "tier": tier, "seed": seed,
                           "tolerance": next(c.tol for c in clauses if c.name == cname)}, fh, indent=1, default=str)
            print(f"VIOLATION property={pid} replay={path}")
            print(f"  clause={cname} site={site} [{len(members)} case(s) in this group] {res.get('detail')}  case={json.dumps(case, default=str)[:300]}")
        exit_code = 1
    for cname, case, res in harness_errors[:10]:
        print(f"HARNESS-ERROR property={pid} clause={cname} {res.get('detail')} case={json.dumps(case, default=str)[:300]}")
    if harness_errors and exit_code == 0:
        exit_code = 2

    wall = time.time() - t_start
    level = LEVELS.get(pid, "exploration")
    rule = getattr(mod, "RULE", "case = one point of the clause's finite configuration space; distinct by canonical JSON; "
                   "non-trivial by the clause's own rule (see clauses.*.doc)")
    evidence = {
        "property_id": pid,
        "tier": tier,
        "seed": seed,
        "level": level,
        "wall_s": round(wall, 2),
        "violations": len(violations),
        "coverage": {
            "exhaustive": not harness_errors and only_clause is None,
            "evaluations": evaluations,
            "distinct_nontrivial": len(distinct_nontrivial),
            "rule": rule,
            "states": len(distinct) + states,
            "transitions": transitions,
            "traces_validated_against_impl": probed,
            "histories_explored": histories,
            "samples": samples[:60],
            "clauses": clause_tables,
            "known_finding_hits": kf_hits,
            "harness_errors": len(harness_errors),
            "explanation": "states = distinct cases (+ BFS states of history clauses); transitions = toqito API "
                           "call groups executed (+ BFS transitions); traces_validated = cases re-executed by the "
                           "determinism probe in a different work item with identical observation",
            "repo": repo,
            "jobs": jobs,
        },
        "assumptions": getattr(mod, "ASSUMPTIONS", []),
    }
    if (only_clause is None and os.path.abspath(repo) == "/repo") or os.environ.get("VERIF_WRITE_PARTIAL"):
        os.makedirs(os.path.join(VERIF, "evidence"), exist_ok=True)
        with open(os.path.join(VERIF, "evidence", f"{pid}.json"), "w") as fh:
            json.dump(evidence, fh, indent=1, default=str)
    summary = ", ".join(f"{k.split('.', 1)[-1]}:{v['cases']}" for k, v in clause_tables.items())
    print(f"{pid} tier={tier} seed={seed} cases={evaluations} nontrivial={len(distinct_nontrivial)} violations={len(violations)} "
          f"known={sum(kf_hits.values())} wall={wall:.1f}s [{summary}]")
    return exit_code


def replay(pid: str, path: str, repo: str) -> int:
    _prepare_path(repo)
    with open(path) as fh:
        rec = json.load(fh)
    os.environ["VERIF_SEED"] = str(rec.get("seed", 0))
    mod = load_property(pid)
    clause = next(c for c in mod.CLAUSES if c.name == rec["clause"])
    res = run_one(clause, rec["case"])
    print(json.dumps({k: res.get(k) for k in ("status", "detail", "site", "observed", "expected")}, indent=1, default=str))
    if res["status"] == VIOL:
        from mc import findings

        kf = findings.match(pid, clause.name, rec["case"], res)
        if kf:
            print(f"KNOWN-FINDING: property={pid} {kf}")
            return 0
        print(f"VIOLATION property={pid} replay={path}")
        return 1
    return 0
