"""Shared alphabets: structured (fixed forever) + seed-derived generic elements (DESIGN 2.3 / Appendix A).

Every element is produced by a pure function of (name, d, VERIF_SEED); cases store only the key (a string).
``ket(d, key)``, ``unitary(d, key)``, ``density(d, key)``, ``prior(n, key)`` rebuild the object from the key.
"""

from __future__ import annotations

import itertools
import os
import zlib
from functools import lru_cache

import numpy as np

G = 2  # generic elements per catalogue


def seed() -> int:
    return int(os.environ.get("VERIF_SEED", "0") or 0)


def rng(axis: str, k: int = 0, extra: int = 0) -> np.random.Generator:
    """Deterministic generator for a named axis (independent of call order and of numpy's global state)."""
    return np.random.default_rng([seed(), zlib.crc32(axis.encode()), k, extra])


# ------------------------------------------------------------------------------------------------ generic elements
def _conditioned(draw, good, axis, k):
    for attempt in range(200):
        x = draw(rng(axis, k, attempt))
        if good(x):
            return x
    raise RuntimeError(f"conditioning filter failed for {axis}/{k}")


def generic_ket(d: int, k: int = 0) -> np.ndarray:
    def draw(r):
        v = r.normal(size=d) + 1j * r.normal(size=d)
        return v / np.linalg.norm(v)
    return _conditioned(draw, lambda v: np.min(np.abs(v)) > 0.08 and np.min(np.abs(v.imag)) > 0.02, f"ket{d}", k)


def generic_real_ket(d: int, k: int = 0) -> np.ndarray:
    def draw(r):
        v = r.normal(size=d)
        return v / np.linalg.norm(v)
    return _conditioned(draw, lambda v: np.min(np.abs(v)) > 0.08, f"rket{d}", k)


def generic_unitary(d: int, k: int = 0) -> np.ndarray:
    def draw(r):
        z = r.normal(size=(d, d)) + 1j * r.normal(size=(d, d))
        q, rr = np.linalg.qr(z)
        ph = np.diag(rr) / np.abs(np.diag(rr))
        return q * ph
    return _conditioned(draw, lambda u: np.min(np.abs(u)) > 0.05, f"unitary{d}", k)


def generic_orthogonal(d: int, k: int = 0) -> np.ndarray:
    def draw(r):
        q, rr = np.linalg.qr(r.normal(size=(d, d)))
        return q * np.sign(np.diag(rr))
    return _conditioned(draw, lambda u: np.min(np.abs(u)) > 0.05, f"orth{d}", k)


def generic_density(d: int, k: int = 0, rank: int | None = None) -> np.ndarray:
    """Generic basis (Haar-like unitary) x seed-jittered ramp spectrum: eigenvalue gaps are guaranteed for every d."""
    rank = rank or d
    r = rng(f"density{d}r{rank}", k)
    z = r.normal(size=(d, d)) + 1j * r.normal(size=(d, d))
    q, rr = np.linalg.qr(z)
    u = q * (np.diag(rr) / np.abs(np.diag(rr)))
    w = np.arange(rank, 0, -1, dtype=float) + r.uniform(-0.3, 0.3, size=rank)
    w = w / w.sum()
    full = np.zeros(d)
    full[:rank] = w
    return herm_(u @ np.diag(full) @ u.conj().T)


def herm_(m):
    return (m + m.conj().T) / 2


def generic_prior(n: int, k: int = 0) -> np.ndarray:
    def draw(r):
        p = r.dirichlet(np.ones(n) * 2.0)
        return p
    return _conditioned(draw, lambda p: p.min() > 0.08 and (np.min(np.abs(np.diff(np.sort(p)))) > 0.03 if n > 1 else True), f"prior{n}", k)


def generic_matrix(r_: int, c_: int, k: int = 0, real: bool = False) -> np.ndarray:
    r = rng(f"mat{r_}x{c_}{'r' if real else 'c'}", k)
    m = r.normal(size=(r_, c_))
    if not real:
        m = m + 1j * r.normal(size=(r_, c_))
    return np.round(m, 3)


# ------------------------------------------------------------------------------------------------ structured: kets
def _normalize(v):
    v = np.asarray(v, dtype=complex)
    return v / np.linalg.norm(v)


def fourier(d: int) -> np.ndarray:
    w = np.exp(2j * np.pi / d)
    return np.array([[w ** (j * k) for k in range(d)] for j in range(d)]) / np.sqrt(d)


def shift(d: int) -> np.ndarray:
    return np.roll(np.eye(d), 1, axis=0)


def clock(d: int) -> np.ndarray:
    return np.diag([np.exp(2j * np.pi * k / d) for k in range(d)])


@lru_cache(maxsize=None)
def _kets(d: int, sd: int) -> dict:
    out = {}
    for k in range(d):
        e = np.zeros(d, dtype=complex)
        e[k] = 1
        out[f"e{k}"] = e
    F = fourier(d)
    for k in range(d):
        if d > 1:
            out[f"f{k}"] = F[:, k].copy()
    if d >= 2:
        out["ramp"] = _normalize(np.arange(1, d + 1))
        out["chirp"] = _normalize([np.exp(2j * np.pi * k * k / d) * (1 + 0.25 * k) for k in range(d)])
    if d == 2:
        out["+"] = _normalize([1, 1])
        out["-"] = _normalize([1, -1])
        out["+i"] = _normalize([1, 1j])
        out["-i"] = _normalize([1, -1j])
        out["pi8"] = np.array([np.cos(np.pi / 8), np.sin(np.pi / 8)], dtype=complex)
        out["pi8ph"] = np.array([np.cos(np.pi / 8), np.exp(1j * np.pi / 4) * np.sin(np.pi / 8)], dtype=complex)
        out["trine1"] = np.array([-0.5, np.sqrt(3) / 2], dtype=complex)
        out["trine2"] = np.array([-0.5, -np.sqrt(3) / 2], dtype=complex)
        del out["f0"], out["f1"]  # equal to +,-
    if d >= 3:
        out["01"] = _normalize([1, 1] + [0] * (d - 2))
        out["0i1"] = _normalize([1, 1j] + [0] * (d - 2))
    for k in range(G):
        out[f"g{k}"] = generic_ket(d, k)
    return out


def kets(d: int) -> dict:
    return _kets(d, seed())


def ket(d: int, key: str) -> np.ndarray:
    return kets(d)[key].copy()


# ------------------------------------------------------------------------------------------------ structured: unitaries
@lru_cache(maxsize=None)
def _unitaries(d: int, sd: int) -> dict:
    out = {"I": np.eye(d, dtype=complex)}
    if d >= 2:
        out["F"] = fourier(d)
        out["X"] = shift(d).astype(complex)
        out["Z"] = clock(d)
        out["XZ"] = shift(d) @ clock(d)
        out["ph"] = np.diag([np.exp(1j * np.pi * k / 4) for k in range(d)])
    if d == 2:
        out["H"] = np.array([[1, 1], [1, -1]], dtype=complex) / np.sqrt(2)
        out["S"] = np.diag([1, 1j]).astype(complex)
        out["T"] = np.diag([1, np.exp(1j * np.pi / 4)])
        c, s = np.cos(np.pi / 8), np.sin(np.pi / 8)
        out["Ry"] = np.array([[c, -s], [s, c]], dtype=complex)
    if d == 3:
        for p in itertools.permutations(range(3)):
            if p != (0, 1, 2):
                out["P" + "".join(map(str, p))] = np.eye(3, dtype=complex)[list(p)]
    if d == 4:
        h = np.array([[1, 1], [1, -1]]) / np.sqrt(2)
        out["HH"] = np.kron(h, h).astype(complex)
        out["CNOT"] = np.array([[1, 0, 0, 0], [0, 1, 0, 0], [0, 0, 0, 1], [0, 0, 1, 0]], dtype=complex)
        out["SWAP"] = np.array([[1, 0, 0, 0], [0, 0, 1, 0], [0, 1, 0, 0], [0, 0, 0, 1]], dtype=complex)
    for k in range(G):
        out[f"g{k}"] = generic_unitary(d, k)
    return out


def unitaries(d: int) -> dict:
    return _unitaries(d, seed())


def unitary(d: int, key: str) -> np.ndarray:
    return unitaries(d)[key].copy()


# ------------------------------------------------------------------------------------------------ structured: densities
def herm(m: np.ndarray) -> np.ndarray:
    return (m + m.conj().T) / 2


def proj(v: np.ndarray) -> np.ndarray:
    v = np.asarray(v, dtype=complex).reshape(-1, 1)
    return herm(v @ v.conj().T)


def _spectrum(kind: str, r: int) -> np.ndarray:
    if kind == "flat":
        return np.ones(r) / r
    w = np.arange(r, 0, -1, dtype=float)
    return w / w.sum()


@lru_cache(maxsize=None)
def _densities(d: int, sd: int) -> dict:
    out = {}
    for name, v in kets(d).items():
        out["ket:" + name] = proj(v)
    bases = {"I": np.eye(d, dtype=complex), "F": fourier(d), "g": generic_unitary(d, 0)} if d >= 2 else {"I": np.eye(1, dtype=complex)}
    for bname, U in bases.items():
        for r in range(2, d + 1):
            for sp in ("flat", "ramp"):
                if sp == "flat" and r == d and bname != "I":
                    continue
                w = np.zeros(d)
                w[:r] = _spectrum(sp, r)
                out[f"{sp}{r}@{bname}"] = herm(U @ np.diag(w) @ U.conj().T)
                if r < d:
                    w2 = np.zeros(d)
                    w2[d - r:] = _spectrum(sp, r)
                    out[f"{sp}{r}hi@{bname}"] = herm(U @ np.diag(w2) @ U.conj().T)
    for k in range(G):
        out[f"gfull{k}"] = generic_density(d, k)
        if d > 2:
            out[f"gdef{k}"] = generic_density(d, k, rank=d - 1)
    return out


def densities(d: int) -> dict:
    return _densities(d, seed())


def density(d: int, key: str) -> np.ndarray:
    return densities(d)[key].copy()


# ------------------------------------------------------------------------------------------------ priors
def priors(n: int, generic: int = 1) -> dict:
    out = {"uniform": np.ones(n) / n}
    if n > 1:
        w = np.arange(n, 0, -1, dtype=float)
        out["ramp"] = w / w.sum()
    for k in range(generic):
        if n > 1:
            out[f"g{k}"] = generic_prior(n, k)
    return out


def prior(n: int, key: str) -> np.ndarray:
    return priors(n, generic=G)[key].copy()


# ------------------------------------------------------------------------------------------------ misc
def compositions(total: int, parts: int):
    """All compositions of `total` into exactly `parts` positive integers, non-increasing (partitions)."""
    def rec(rem, k, mx):
        if k == 1:
            if 1 <= rem <= mx:
                yield (rem,)
            return
        for first in range(min(rem - (k - 1), mx), 0, -1):
            for rest in rec(rem - first, k - 1, first):
                yield (first,) + rest
    return list(rec(total, parts, total))


def bell_kets() -> dict:
    s = 1 / np.sqrt(2)
    return {
        "phi+": np.array([s, 0, 0, s], dtype=complex),
        "phi-": np.array([s, 0, 0, -s], dtype=complex),
        "psi+": np.array([0, s, s, 0], dtype=complex),
        "psi-": np.array([0, s, -s, 0], dtype=complex),
    }
