"""Input-class predicates and as-is models of the open known findings (see known_findings.json)."""

from mc.findings import as_is, input_class  # noqa: F401
