"""Registers the input-class predicates and as-is models of the known findings (one module per property in mc/kf/)."""

import importlib
import os
import pkgutil

import mc.kf

for _m in pkgutil.iter_modules(mc.kf.__path__):
    importlib.import_module("mc.kf." + _m.name)
