"""Regenerates MANIFEST.json from the table below (python -m mc.mkmanifest)."""

import json
import os
import subprocess

VERIF = os.path.dirname(os.path.dirname(os.path.abspath(__file__)))

# id -> (category, technique, text, note)
CHECKS = {
    "C01": ("exploration",
            "bounded exhaustive enumeration of configurations on the real code vs integer index oracle",
            "Every configuration (dims in {1,2,3}^n n<=4 [thorough: n<=5, dim 4], all permutations, both flags, vector/column/"
            "square/rectangular, flat/2-row/ndarray/omitted dim, dense/sparse, five entry labellings incl. formal symbols) of "
            "permute_systems, swap, permutation_operator, swap_operator is executed and compared cell-by-cell with a mixed-radix "
            "index oracle and with a prime-filled Kronecker-factor oracle. For a gather the verdict per configuration holds for every entry value.",
            "numpy indexing moves entries without arithmetic (checked with formal labels); shapes beyond the bound not covered"),
    "C18": ("exploration",
            "complete enumeration of the stated finite space on the real code vs combinatorial reference",
            "The whole space named by the property is enumerated: all (d,p) in 1..4 with d^p<=256, partial on/off; all 873 permutations "
            "of <=6 elements and all ordered pairs for n<=5 (multiplicativity); all multisets of size <=6 over <=3 (thorough: 6) symbols; "
            "all n<=10 in int/list/ndarray/label forms. Oracles: Hermitian idempotent of binomial rank with W_pi P = [sgn pi] P for every "
            "reference permutation operator, orthogonality, p=2 completeness, isometry forms; (-1)^inversions; set(itertools.permutations); (n-1)!! distinct matchings.",
            "float comparisons at 1e-9 on matrices with entries k/p!; reference permutation operators from mc.ref.tensor_index"),
    "C19": ("model_checking",
            "explicit-state exploration of call histories on the real generators (owned entropy) + full-product validity enumeration",
            "Reproducibility is decided by exhaustive exploration of call histories (depth 2 quick / 3 thorough over a 57-event menu: "
            "global seed/draw, unseeded and seeded calls of all 9 generators x 2 argument tuples x 2 seeds) with OS entropy owned by an "
            "entropy tape: every seeded call must return bitwise the canonical object, must not read numpy's global RNG nor OS entropy, and "
            "different seeds must differ. Validity is a full product generator x dims 1..6 x options x seeds x {seeded, unseeded}. "
            "Measurements: all spanning sub-ensembles (2..4 states, d=2,3) x priors x forms for PGM/PBM with a certified P_opt bracket; "
            "measure on all (state, Kraus set) pairs; is_povm on margin perturbations.",
            "numpy.random.bit_generator.randbits replaced by the harness (no source hook); P_opt bracket from own SDP + eigvalsh arithmetic; histories beyond depth 3 not explored"),
    "C20": ("exploration",
            "exhaustive enumeration of a finite channel catalogue (maps, ordered pairs, pair x unitary) on the real code vs certified SDP brackets and closed forms",
            "Every map / ordered pair / (pair, unitary) of a finite catalogue of qubit (thorough: qutrit) maps - unitary channels from the unitary "
            "catalogue, mixtures, damping families, Stinespring CPTP maps from seed-derived unitaries, CP non-TP maps, differences of channels, "
            "generic Hermiticity-preserving and non-Hermitian Choi matrices - is run through completely_bounded_trace_norm / diamond_distance / "
            "completely_bounded_spectral_norm / channel_fidelity (local dims 2,3,4,5) / channel fidelity_of_separability. The cb trace norm must lie in a "
            "bracket [L,U] obtained from the harness's own Watrous primal and dual points whose feasibility is verified by eigvalsh arithmetic "
            "(weak duality makes the bracket independent of any solver being right); closed forms: 2 sqrt(1-delta^2) and delta for unitary pairs, "
            "replacer channels, ||Phi*(I)||; relations: symmetry, zero/one on equal channels, Choi trace-norm bounds, homogeneity, unitary invariance, "
            "upper bounds from explicit input states.",
            "tolerances 1e-4 (picos/cvxopt) and 2e-3..5e-3 (SCS); only cvxopt is available to picos; channel_fidelity has no independent lower-bound "
            "certificate (relations + closed forms only); CVXOPT numerical breakdowns are counted as indeterminate"),
    "C17": ("exploration",
            "exhaustive enumeration of index / dimension / parameter-grid spaces of every constructor on the real code vs independent reference arithmetic",
            "Every function exported by toqito.states and toqito.matrices is run over dims 2..5 (primes up to 7, thorough 13, for MUBs), qubit counts 1..5, "
            "all index pairs, parameter grids with end points and values just outside, all argument forms (int/str/list, dense/sparse) and all catalogue "
            "unitaries (structured + seed-derived) for the invariance statements; 15 clauses compare with literal reference matrices and index-arithmetic "
            "partial trace / transpose / permutation operators (no toqito helper is trusted as an oracle): orthonormal maximally entangled Bell bases, marginals, "
            "GHZ/W/Dicke support and symmetry, Werner U(x)U / isotropic U(x)conj(U) invariance and PPT thresholds, list = scalar Werner, Horodecki PPT, product bases, "
            "MUB overlaps, trace-orthogonal operator bases of rank d^2, Weyl relations and Fourier intertwining, gate actions, documented rejections.",
            "real parameters decided on the stated grids only; rejection demanded only where a docstring documents it; float tolerance 1e-9..1e-12"),
}

PENDING_REASON = "check not built yet in this session (work in progress; see DESIGN.md section 7 for the planned exploration)"


def main():
    props = [json.loads(l)["id"] for l in open(os.path.join(VERIF, "properties.jsonl"))]
    fixes = subprocess.run(["git", "-C", "/repo", "log", "--format=%h %s"], capture_output=True, text=True).stdout.splitlines()
    man = {
        "version": 1,
        "setup_cmd": "./check --selftest",
        "hooks": {
            "guard": "TOQITO_VERIF",
            "enable": "no source hooks: checks import /repo's working tree directly (editable namespace install); entropy and "
                      "return sites are observed from the harness side (monkeypatch / sys.settrace)",
            "baseline_off_cmd": "cd /repo && /venv/bin/python -m pytest -ra -q -p no:cacheprovider --timeout=900 --continue-on-collection-errors",
            "source_commits": [],
            "add_only": True,
        },
        "engines": [{"name": "mc", "path": "mc/engine.py", "serves_properties": sorted(CHECKS),
                     "kind_free_text": "hand-written explicit enumeration engine: full-product / deviation-bounded case spaces, "
                                       "BFS history explorer calling the real methods, 16-way sharding, determinism probe"}],
        "checks": [],
        "not_applicable": [],
        "notes": "fix: commits in /repo: " + "; ".join(f for f in fixes if " fix:" in f),
    }
    for pid in props:
        if pid in CHECKS:
            cat, tech, text, note = CHECKS[pid]
            man["checks"].append({
                "property_id": pid,
                "quick_cmd": f"./check {pid} --tier quick",
                "thorough_cmd": f"./check {pid} --tier thorough",
                "evidence_file": f"evidence/{pid}.json",
                "replay_cmd_template": f"./check {pid} --replay {{path}}",
                "engine": "mc",
                "level_claimed": {"category": cat, "text": text, "design_ref": f"DESIGN.md section 7, {pid}"},
                "level_note": note,
                "technique": tech,
            })
        else:
            man["not_applicable"].append({"property_id": pid, "reason": PENDING_REASON})
    with open(os.path.join(VERIF, "MANIFEST.json"), "w") as fh:
        json.dump(man, fh, indent=1)
    print("MANIFEST.json:", len(man["checks"]), "checks,", len(man["not_applicable"]), "not applicable")


if __name__ == "__main__":
    main()
