"""Regenerates MANIFEST.json from the table below (python -m mc.mkmanifest)."""

import json
import os
import subprocess

VERIF = os.path.dirname(os.path.dirname(os.path.abspath(__file__)))

# id -> (category, technique, text, note)
CHECKS = {
    "C01": ("exploration",
            "bounded exhaustive enumeration of configurations on the real code vs integer index oracle",
            "Every configuration (dims in {1,2,3}^n n<=4 [thorough: n<=5, dim 4], all permutations, both flags, vector/column/"
            "square/rectangular, flat/2-row/ndarray/omitted dim, dense/sparse, five entry labellings incl. formal symbols) of "
            "permute_systems, swap, permutation_operator, swap_operator is executed and compared cell-by-cell with a mixed-radix "
            "index oracle and with a prime-filled Kronecker-factor oracle. For a gather the verdict per configuration holds for every entry value.",
            "numpy indexing moves entries without arithmetic (checked with formal labels); shapes beyond the bound not covered"),
    "C18": ("exploration",
            "complete enumeration of the stated finite space on the real code vs combinatorial reference",
            "The whole space named by the property is enumerated: all (d,p) in 1..4 with d^p<=256, partial on/off; all 873 permutations "
            "of <=6 elements and all ordered pairs for n<=5 (multiplicativity); all multisets of size <=6 over <=3 (thorough: 6) symbols; "
            "all n<=10 in int/list/ndarray/label forms. Oracles: Hermitian idempotent of binomial rank with W_pi P = [sgn pi] P for every "
            "reference permutation operator, orthogonality, p=2 completeness, isometry forms; (-1)^inversions; set(itertools.permutations); (n-1)!! distinct matchings.",
            "float comparisons at 1e-9 on matrices with entries k/p!; reference permutation operators from mc.ref.tensor_index"),
    "C19": ("model_checking",
            "explicit-state exploration of call histories on the real generators (owned entropy) + full-product validity enumeration",
            "Reproducibility is decided by exhaustive exploration of call histories (depth 2 quick / 3 thorough over a 57-event menu: "
            "global seed/draw, unseeded and seeded calls of all 9 generators x 2 argument tuples x 2 seeds) with OS entropy owned by an "
            "entropy tape: every seeded call must return bitwise the canonical object, must not read numpy's global RNG nor OS entropy, and "
            "different seeds must differ. Validity is a full product generator x dims 1..6 x options x seeds x {seeded, unseeded}. "
            "Measurements: all spanning sub-ensembles (2..4 states, d=2,3) x priors x forms for PGM/PBM with a certified P_opt bracket; "
            "measure on all (state, Kraus set) pairs; is_povm on margin perturbations.",
            "numpy.random.bit_generator.randbits replaced by the harness (no source hook); P_opt bracket from own SDP + eigvalsh arithmetic; histories beyond depth 3 not explored"),
    "C20": ("exploration",
            "exhaustive enumeration of a finite channel catalogue (maps, ordered pairs, pair x unitary) on the real code vs certified SDP brackets and closed forms",
            "Every map / ordered pair / (pair, unitary) of a finite catalogue of qubit (thorough: qutrit) maps - unitary channels from the unitary "
            "catalogue, mixtures, damping families, Stinespring CPTP maps from seed-derived unitaries, CP non-TP maps, differences of channels, "
            "generic Hermiticity-preserving and non-Hermitian Choi matrices - is run through completely_bounded_trace_norm / diamond_distance / "
            "completely_bounded_spectral_norm / channel_fidelity (local dims 2,3,4,5) / channel fidelity_of_separability. The cb trace norm must lie in a "
            "bracket [L,U] obtained from the harness's own Watrous primal and dual points whose feasibility is verified by eigvalsh arithmetic "
            "(weak duality makes the bracket independent of any solver being right); closed forms: 2 sqrt(1-delta^2) and delta for unitary pairs, "
            "replacer channels, ||Phi*(I)||; relations: symmetry, zero/one on equal channels, Choi trace-norm bounds, homogeneity, unitary invariance, "
            "upper bounds from explicit input states.",
            "tolerances 1e-4 (picos/cvxopt) and 2e-3..5e-3 (SCS); only cvxopt is available to picos; channel_fidelity has no independent lower-bound "
            "certificate (relations + closed forms only); CVXOPT numerical breakdowns are counted as indeterminate"),
    "C17": ("exploration",
            "exhaustive enumeration of index / dimension / parameter-grid spaces of every constructor on the real code vs independent reference arithmetic",
            "Every function exported by toqito.states and toqito.matrices is run over dims 2..5 (primes up to 7, thorough 13, for MUBs), qubit counts 1..5, "
            "all index pairs, parameter grids with end points and values just outside, all argument forms (int/str/list, dense/sparse) and all catalogue "
            "unitaries (structured + seed-derived) for the invariance statements; 15 clauses compare with literal reference matrices and index-arithmetic "
            "partial trace / transpose / permutation operators (no toqito helper is trusted as an oracle): orthonormal maximally entangled Bell bases, marginals, "
            "GHZ/W/Dicke support and symmetry, Werner U(x)U / isotropic U(x)conj(U) invariance and PPT thresholds, list = scalar Werner, Horodecki PPT, product bases, "
            "MUB overlaps, trace-orthogonal operator bases of rank d^2, Weyl relations and Fourier intertwining, gate actions, documented rejections.",
            "real parameters decided on the stated grids only; rejection demanded only where a docstring documents it; float tolerance 1e-9..1e-12"),
    "C02": ("exploration",
            "bounded exhaustive enumeration of configurations on the real code vs index-contraction oracle (exact labels)",
            "Every configuration of partial_trace - dims in {1,2,3}^n n<=3 plus {1,2}^4 (thorough n=4, product<=48), every non-empty subset S in every "
            "listing order / bare int / omitted, dim as list / every divisor scalar / omitted, six labellings incl. exact multiset labels, cvxpy Variable "
            "(real, complex, hermitian) - is compared with a loop-level contraction oracle; linearity on all ordered basis pairs, trace preservation, "
            "Tr_S of prime-filled Kronecker products, composition S then T = union for all ordered splits.",
            "entry values closed by exact labels + basis enumeration; shapes bounded; sparse inputs and np.int64 scalar arguments not covered"),
    "C03": ("exploration",
            "bounded exhaustive enumeration of configurations on the real code vs index-exchange oracle (exact labels)",
            "Every configuration of partial_transpose (square dims incl. 1, rectangular with independent row/col dims in {2,3}^n n<=3, S as list / ndarray / int / "
            "omitted, dim flat / 2-row / ndarray / omitted, five labellings, cvxpy Variables) and realignment ((r1,r2,c1,c2) in {2,3,4}^4, all dim forms) is "
            "compared with an integer index oracle and with prime-filled Kronecker factor oracles; involution, full transpose, complement relation, "
            "R(A(x)B) = vec(A)vec(B)^T, Frobenius norm; caller's dim / input arrays must be unchanged.",
            "gathers: verdict per configuration holds for every entry value (checked on formal labels); shapes bounded"),
    "C04": ("exploration",
            "basis enumeration over all shapes in the bound + structured/generic Kraus catalogue on the real code vs loop-level reference map",
            "For all (d_in, d_out) in {1,2,3}^2 (thorough {1..4}^2), independent left/right shapes, all representation forms (flat, nested, row, pairs, Choi), the "
            "full product basis {E_ab, iE_ab} x {E_cd, iE_cd} x {E_ef} decides every rank-1 map (sesquilinearity), additivity/homogeneity on basis pairs, higher-rank "
            "families from a structured + seed-derived catalogue; kraus_to_choi = sum E_ij (x) Phi(E_ij); choi_to_kraus re-applied (Hermitian PSD / indefinite / "
            "non-Hermitian / rectangular, tol cut with margins); chain Kraus->Choi->Kraus->Choi; partial_channel at every position with surrounding dims {1,2,3}; "
            "natural_representation with row-major vec; channel_dim forms and rejections.",
            "linear maps: basis enumeration closes the value domain for fixed shapes; shapes bounded (d<=4)"),
    "C05": ("exploration",
            "basis enumeration + ground-truth catalogue on the real code vs Hilbert-Schmidt adjoint / Stinespring reference",
            "<Y,Phi(X)> = <Phi*(Y),X> on the full product basis for flat / pairs / Choi (with dims) forms and all shapes in the bound, dual of dual, unital <=> dual "
            "trace-preserving on a catalogue containing all four classes, complementary channel entries Tr(K_i rho K_j^dagger), trace preservation and equal non-zero "
            "spectra on pure inputs for exact isometry families (Fourier / Hadamard / permutation / generic blocks).",
            "shapes bounded (d<=4, rank<=3); float tolerance 1e-9"),
    "C06": ("exploration",
            "exhaustive enumeration of a ground-truth map catalogue x representation x predicate, and of parameter grids of the built-in channels",
            "468 maps whose status for each predicate is known by construction (unitary conjugations, rational mixtures, Stinespring isometries with d_in != d_out, scaled, "
            "margin-perturbed, HP / non-HP pairs, transpose, negation, extremal / non-extremal, known Choi ranks) x 11 representation variants x 9 predicates, verdicts "
            "asserted only on margin cases; built-in channels on parameter grids incl. end points and values just outside: textbook action on every E_ij / iE_ij, "
            "Kraus = Choi = applied, CPTP / unital flags by independent arithmetic, documented rejections.",
            "default rtol/atol; margins >= 100x tolerance; dims <= 4 (built-ins <= 5); pairs form not judged for is_extremal (undocumented there)"),
    "C13": ("exploration",
            "exhaustive enumeration of all ordered pairs / triples / (pair, unitary) of a finite density catalogue on the real code vs eigh-based definitions",
            "All ordered pairs of 26..80 states per dimension (d=2,3,4; thorough <=6: projectors on catalogue kets, rational spectra of every rank in computational / "
            "Fourier / generic bases, seed-derived generic full-rank and rank-deficient states, nearly equal and orthogonal partners) for each function's documented "
            "formula (evaluated independently through eigh / svd), symmetry, extremes exactly on identical / orthogonal pairs, pure-state closed forms, the "
            "inequalities 1-F<=T<=sqrt(1-F^2), E<=F^2, M<=F; all triples for the triangle inequality; catalogue unitaries x pairs for invariance; rejection of "
            "non-density inputs; fidelity_of_separability = 1 on pure product states (k=1,2) and rejections.",
            "continuous value domain decided on the finite catalogue only (small-scope); tolerance 1e-6 (eigen) / 1e-4 (SDP)"),
    "C15": ("exploration",
            "exhaustive enumeration of constructed state families on the real code with return-site tracing",
            "is_ppt / is_npt on states whose smallest partial-transpose eigenvalue is constructed at -10x / -0.1x / +0.1x / +10x the tolerance for three "
            "tolerances, both parties, five dimension pairs, list / scalar / omitted dim; is_separable on all mixtures of 1..4 (thorough 6) product states "
            "from a 7-term product catalogue with weights from the compositions of 4 (must not be declared entangled) and on NPT states with margin "
            "(must not be declared separable), local dims (2,2),(2,3),(3,2),(3,3),(2,4),(4,2) (+(4,4),(3,4) thorough), every verdict's return site recorded "
            "by sys.settrace; invariance under local unitaries and party exchange incl. PPT-entangled states (Horodecki, Tiles); in_separable_ball at "
            "0.5/0.9/1.1/2.0 of the Gurvits-Barnum radius in matrix and eigenvalue forms; has_symmetric_extension on separable states (levels 1,2, ppt on/off).",
            "soundness only (one-sided, as the property states); continuous value domain decided on the finite families; SDP-priced sizes thinned by a stated stride"),
    "C16": ("exploration",
            "exhaustive enumeration of matrices built to have / violate each property by a margin x transforms x tolerance variants, and exact helper identities",
            "21 clauses: every predicate of matrix_props / state-set predicates on a catalogue of matrices that have the property by construction (U D U^dagger with "
            "catalogue + seed-derived unitaries and rational spectra, exactly symmetrised; all permutation matrices; circulants; stochastic grids; totally "
            "positive families; pseudo-unitary signatures; orthonormal column subsets; MUBs; UPBs) and the same objects perturbed by 100x the tolerance, under "
            "property-preserving transforms and rtol/atol variants; helper identities exact on prime-filled operands (vec/unvec, vec(AXB), tensor forms), Gram round "
            "trip (real / complex, PD / rank-deficient), commutant dimension and commutation, majorizes on all pairs of partitions of 6, spark vs brute force, norms vs SVD.",
            "three-valued oracle (inside-margin inputs not judged); spec-ambiguous docstrings not judged; sizes <= 4 (thorough 6)"),
    "C14": ("exploration",
            "exhaustive enumeration of Schmidt-coefficient partitions x local bases x dims x argument forms on the real code vs closed forms",
            "Bipartite pure states sum s_i |a_i>|b_i> for ALL partitions of 6 (thorough 6 and 8) into <= min(d) parts, local dims {2,3}^2 (thorough {2,3,4}^2, unequal "
            "included), local bases from every catalogue unitary (structured + seed-derived, complex), inputs as 1-D / column / density matrix, dim as list / ndarray / "
            "int / omitted, k = 1..min(d): negativity, log-negativity, EoF, concurrence, Schmidt rank, S(k) vector norm, l1-coherence vs closed forms in s_i; "
            "schmidt_decomposition rebuilds the state with orthonormal factors; mixed states vs independent definitions; local-unitary invariance of every quantity; "
            "entropy additivity on all catalogue pairs; is_product on bi- and tripartite vectors / operators; sk_operator_norm brackets every enumerated "
            "vector of Schmidt rank <= k with numpy's global seed as an explicit axis; is_block_positive on closed-form cases.",
            "l1-coherence invariance only under local monomial unitaries (the literal local-unitary claim is mathematically false, see ASSUMPTIONS); finite alphabets"),
    "C07": ("model_checking",
            "exhaustive enumeration of games vs exact rational brute force + explicit-state exploration of call histories on the real game object",
            "classical_value is compared with an exact Fraction brute force over all pairs of answer functions (cross-derived by two best-response recursions) on "
            "ALL 81 shapes over {1,2,3}^4: every 0/1 tensor up to 12 (thorough 16) cells, {0,1/2,1} tensors up to 6 (8) cells, cell-pattern products above, x 5 question "
            "distributions (incl. seed-derived rationals), int and float arrays, plus shapes that drive the >1000-strategy multiprocessing branch (thorough); r-fold product "
            "games cell by cell (reps 2,3); from_bcs_game on all small constraint systems; the ordering classical <= / see-saw <= NPA-2 <= NPA-1+ab <= NPA-1 <= NS <= 1 on a "
            "full 4^4 pattern core and all games within 1 (thorough 2) deviations of CHSH over 7 shapes; and a breadth-first exploration of call histories (depth 2, "
            "thorough 3) over {classical, NS, NPA, see-saw with owned entropy} on 8 games: prob_mat / pred_mat / reps bitwise unchanged in every state and every value "
            "equal to the value from the initial state.",
            "NPA has no independent reference (bounded from below by exact / achieved values and above by NS and level monotonicity); SDP slack 1e-3; histories to depth 3"),
    "C08": ("exploration",
            "exhaustive enumeration of all 0/1 XOR predicates x distributions x shapes on the real code vs certified SDP bracket, exact brute force and a Jordan-lemma oracle",
            "All 0/1 predicate matrices of every shape (X,Y) in {1,2,3}^2 (thorough X*Y<=12, X,Y<=4) x {uniform, product-skewed, zero row, zero entry, seed-derived} x tol x reps 1..3: "
            "quantum_value inside a certified bracket [L,U] (explicit unit vectors evaluated by dot products; explicit dual point verified by eigvalsh), = NPA level 1 of the "
            "converted game, >= exact classical, Grothendieck bound, reps = r-th power; classical_value = +-1 brute force = general-game brute force of the conversion; NS values "
            "equal; closed forms (CHSH, odd cycles); constructor rejections; bell_inequality_max for all 81 joint coefficient matrices over {-1,0,1} x marginals x outcome "
            "conventions (+ solvers in thorough) vs a Jordan-lemma grid/refinement oracle and the best deterministic assignment.",
            "SCS tolerance 1e-3 (2e-3 for Bell); Jordan oracle rests on lattice + refinement; bell_inequality_max only for two settings per party"),
    "C09": ("exploration",
            "exhaustive enumeration of extended-game / hedging / cloning catalogues on the real code vs brute force, certified SDP brackets and closed forms",
            "unentangled_value vs brute force over all (f,g) with eigvalsh on referee dims 1..3 x 6 (thorough 10) shapes with unequal counts x 7 question-dependent cell patterns x PSD "
            "operator schemes (real, complex, rank-2) x distributions; exact product games (reps 2,3); ordering unentangled <= / see-saw (owned entropy) <= NPA_2 <= NPA_1+ab <= "
            "NPA_1 <= NS on deviation-bounded and full-core game sets; history exploration over the value methods (arrays unchanged, values reproducible); QuantumHedging "
            "max/min primal/dual inside a certified bracket, primal = dual, max >= min, product consistency, cos^2(pi/8) / sin^2(pi/8) / perfect hedging; optimal_clone on all 1..4 "
            "subsets of 8 (thorough 10) qubit kets + six-state ensemble x priors x input forms x reps 1..2 inside the bracket, closed forms 1, 3/4, 2/3.",
            "no independent NPA reference; hedging and cloning qubit-only (as the code); reps <= 2; SCS tolerance 1e-3"),
    "C12": ("model_checking",
            "explicit-state exploration of call histories over the real functions + exhaustive enumeration of catalogue sub-ensembles vs certified PPT bracket",
            "Call histories of depth 2 (thorough 3) over {hierarchy level 1, level 2, ppt primal, ppt dual} are explored on the real functions with the same caller-owned "
            "argument objects: the digest (bytes, shape, dtype) of every element of `states` and `probs` never changes and every value equals the value from the initial "
            "state. Values: all subsets of size 2..3 (thorough 4) of a 12-ket catalogue per system (2x2, 2x3, 3x2: maximally entangled, product, partially entangled, "
            "seed-derived complex kets) plus mixed states x priors x party x form: ppt value inside a certified PPT bracket [L,U] (own primal/dual points repaired to exact "
            "feasibility and verified by eigvalsh), >= explicit LOCC measurements, <= certified global optimum, primal = dual, returned operators a PPT POVM attaining the "
            "value, invariance under local unitaries and party choice, hierarchy level 1 = PPT value, level 2 <= level 1 and >= separable value, closed forms 1/2 and 7/8.",
            "PPT = separable on 2x2 / 2x3 makes the bracket two-sided for level 2; CVXOPT breakdowns of the primal program (picos issue 341, >1 CPU-s guard) are counted "
            "as indeterminate; level >= 3 and 3x3 out of bounds"),
    "C10": ("exploration",
            "exhaustive enumeration of all catalogue sub-ensembles x priors x forms on the real code vs certified primal/dual brackets and arithmetic certificates",
            "All subsets of size 2..3 (thorough up to 5) of the ket catalogue for d=2,3 (thorough d=4), mixed ensembles from the density catalogue, x priors {uniform, ramp, "
            "seed-derived} x input form {1-D, column, density matrix} x strategy x primal/dual: toqito's value must lie in a bracket [L,U] from the harness's own SDP pair "
            "(cvxpy+CLARABEL) whose points are repaired and verified feasible by eigvalsh / traces; toqito's returned operators are checked arithmetically (valid POVM, attains "
            "the value, Y = sum p_i rho_i M_i dual feasible); Helstrom closed form, 1 on orthogonal sets, >= max prior, >= pretty-good measurement, unitary and relabelling "
            "invariance, unambiguous <= min-error, 0 on linearly dependent sets, 1-|<psi|phi>|, primal = dual, is_distinguishable on margin cases.",
            "picos exposes only cvxopt here; primal forms are called with cvxopt_kktsolver='ldl' and an iteration cap (picos issue 341); tolerance 1e-4 (certificate 1e-3)"),
    "C11": ("exploration",
            "exhaustive enumeration of all catalogue sub-ensembles x priors x forms on the real code vs certified brackets; named antidistinguishable sets",
            "As C10 for state_exclusion: value inside the certified bracket of the minimum of sum p_i Tr(rho_i M_i), returned POVM valid and attaining it, Y <= p_i rho_i "
            "lower-bound certificate, primal = dual, 0 <= value <= min prior, unitary / relabelling invariance; value = 0 exactly on antidistinguishable sets decided by the "
            "harness's own bracket (trine, the BB84 states and their 3-subsets, Pusey-Barrett-Rudolph states on a theta grid bracketing the threshold at +-5..10 %) and positive "
            "otherwise (margins 1e-9 / 1e-6); is_antidistinguishable and common_quantum_overlap agree with the value; trine / pusey_barrett_rudolph constructors; unambiguous "
            "variant for primal/dual agreement where the solver returns.",
            "as C10; CVXOPT failures of the unambiguous variant are indeterminate (the property allows it)"),
}

# clauses added after the first build (mostly in response to seeded changes the first build missed)
COMMON = (" Generic observers on every call: caller-owned arguments are snapshotted and must be bitwise unchanged afterwards; where enabled, "
          "each call is repeated on Fortran-ordered copies of its 2-D arguments (memory-layout twin) and a third time after the first result "
          "has been overwritten (repeat twin: results must not alias inputs, module state or earlier results).")


def clause_list(pid):
    """name: doc of every clause of the property as built (imported from mc.props so the manifest cannot drift from the code)."""
    import importlib
    mod = importlib.import_module("mc.props." + pid.lower())
    return " Clauses as built: " + "; ".join(f"{c.name} - {c.doc}" for c in mod.CLAUSES) + "."

PENDING_REASON = "check not built yet in this session (work in progress; see DESIGN.md section 7 for the planned exploration)"


def main():
    props = [json.loads(l)["id"] for l in open(os.path.join(VERIF, "properties.jsonl"))]
    fixes = subprocess.run(["git", "-C", "/repo", "log", "--format=%h %s"], capture_output=True, text=True).stdout.splitlines()
    man = {
        "version": 1,
        "setup_cmd": "./check --selftest",
        "hooks": {
            "guard": "TOQITO_VERIF",
            "enable": "no source hooks: checks import /repo's working tree directly (editable namespace install); entropy and "
                      "return sites are observed from the harness side (monkeypatch / sys.settrace)",
            "baseline_off_cmd": "cd /repo && /venv/bin/python -m pytest -ra -q -p no:cacheprovider --timeout=900 --continue-on-collection-errors",
            "source_commits": [],
            "add_only": True,
        },
        "engines": [{"name": "mc", "path": "mc/engine.py", "serves_properties": sorted(CHECKS),
                     "kind_free_text": "hand-written explicit enumeration engine: full-product / deviation-bounded case spaces, "
                                       "BFS history explorer calling the real methods, 16-way sharding, determinism probe"}],
        "checks": [],
        "not_applicable": [],
        "notes": "fix: commits in /repo: " + "; ".join(f for f in fixes if " fix:" in f),
    }
    for pid in props:
        if pid in CHECKS:
            cat, tech, text, note = CHECKS[pid]
            text = text + clause_list(pid) + COMMON
            man["checks"].append({
                "property_id": pid,
                "quick_cmd": f"./check {pid} --tier quick",
                "thorough_cmd": f"./check {pid} --tier thorough",
                "evidence_file": f"evidence/{pid}.json",
                "replay_cmd_template": f"./check {pid} --replay {{path}}",
                "engine": "mc",
                "level_claimed": {"category": cat, "text": text, "design_ref": f"DESIGN.md section 7, {pid}"},
                "level_note": note,
                "technique": tech,
            })
        else:
            man["not_applicable"].append({"property_id": pid, "reason": PENDING_REASON})
    with open(os.path.join(VERIF, "MANIFEST.json"), "w") as fh:
        json.dump(man, fh, indent=1)
    print("MANIFEST.json:", len(man["checks"]), "checks,", len(man["not_applicable"]), "not applicable")


if __name__ == "__main__":
    main()
