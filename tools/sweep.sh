#!/bin/bash
# usage: tools/sweep.sh [tier] [seeds...]  -- runs every registered check for the given seeds; prints one line per run
cd "$(dirname "$0")/.."
tier=${1:-quick}; shift
seeds=${@:-0 1 2 3 4}
ids=$(/venv/bin/python -c "import json;print(' '.join(c['property_id'] for c in json.load(open('MANIFEST.json'))['checks']))" 2>/dev/null)
for s in $seeds; do for id in $ids; do
  out=$(VERIF_SEED=$s ./check $id --tier $tier 2>&1); rc=$?
  echo "seed=$s $id rc=$rc $(echo "$out" | tail -1 | cut -c1-110)"
  [ $rc != 0 ] && echo "$out" | grep -E "clause=|HARNESS" | head -6 | cut -c1-300
done; done; true
