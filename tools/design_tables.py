"""Regenerates the generated sections of DESIGN.md (between <!-- GEN:name --> and <!-- /GEN:name --> markers) from the code,
the committed evidence files, known_findings.json and seeded/*/meta.json.  Run by hand: /venv/bin/python tools/design_tables.py"""
import glob, importlib, json, os, re, sys
V = os.path.dirname(os.path.dirname(os.path.abspath(__file__)))
sys.path.insert(0, V); sys.path.insert(0, "/repo")


def asbuilt():
    out = []
    man = json.load(open(os.path.join(V, "MANIFEST.json")))
    for chk in man["checks"]:
        pid = chk["property_id"]
        mod = importlib.import_module("mc.props." + pid.lower())
        ev = {}
        p = os.path.join(V, "evidence", pid + ".json")
        if os.path.exists(p):
            ev = json.load(open(p))
        cov = ev.get("coverage", {})
        out.append(f"#### {pid} - level `{chk['level_claimed']['category']}`; {chk['technique']}\n")
        out.append(f"Last committed evidence: tier {ev.get('tier')}, seed {ev.get('seed')}, {cov.get('evaluations')} cases, "
                   f"{cov.get('distinct_nontrivial')} distinct non-trivial, states {cov.get('states')}, transitions {cov.get('transitions')}, "
                   f"{cov.get('traces_validated_against_impl')} re-executed by the determinism probe, wall {ev.get('wall_s')} s.\n")
        out.append("| clause | cases | non-trivial | rejected / indeterminate / no-verdict | known-finding hits | tolerance | what is decided |\n|---|---|---|---|---|---|---|")
        for c in mod.CLAUSES:
            t = cov.get("clauses", {}).get(c.name, {})
            out.append(f"| `{c.name}` | {t.get('cases', '-')} | {t.get('nontrivial', '-')} | {t.get('rejected', 0)} / {t.get('indeterminate', 0)} / {t.get('no_verdict', 0)} | "
                       f"{t.get('known_finding_hits', 0)} | {c.tol} | {c.doc} |")
        out.append("")
        out.append("Enumeration rule: " + getattr(mod, "RULE", "").strip() + "\n")
        ass = getattr(mod, "ASSUMPTIONS", [])
        if ass:
            out.append("Assumptions / limits: " + "; ".join(ass) + "\n")
    return "\n".join(out)


def findings():
    kf = json.load(open(os.path.join(V, "known_findings.json")))
    out = ["**Open known findings** (suppressed only for the listed clause + site + input class + as-is value):\n"]
    for e in kf:
        if e["status"] == "open":
            out.append(f"* `{e['id']}` ({e['property']}, clause `{e['clause']}`, site `{e['site']}`; input class: {e['input_class']}): {e['what']}")
    out.append("\n**Repaired defects** (`fix:` commits in /repo; a fixed entry suppresses nothing):\n")
    out.append("| property | commit | what failed |\n|---|---|---|")
    for e in kf:
        if e["status"] == "fixed":
            out.append(f"| {e['property']} | `{e['commit']}` | {e['what']} |")
    return "\n".join(out)


def seeded():
    rows = ["| id | property | change (independent sub-agent) | needs to manifest | caught by (violation sites) | first run |\n|---|---|---|---|---|---|"]
    for d in sorted(glob.glob(os.path.join(V, "seeded", "C*-*"))):
        m = json.load(open(os.path.join(d, "meta.json")))
        cv = m.get("coordinator_verification", {})
        rows.append(f"| {os.path.basename(d)} | {m.get('property')} | {str(m.get('summary', ''))[:160]} | {str(m.get('needs_to_manifest', ''))[:140]} | "
                    f"{', '.join(cv.get('detected_at_sites', []))} | {'MISSED, then caught after: ' + cv.get('strengthening', '') if cv.get('initially_missed') else 'caught'} |")
    return "\n".join(rows)


def main():
    p = os.path.join(V, "DESIGN.md")
    s = open(p).read()
    for name, fn in (("asbuilt", asbuilt), ("findings", findings), ("seeded", seeded)):
        a, b = f"<!-- GEN:{name} -->", f"<!-- /GEN:{name} -->"
        if a in s and b in s:
            s = s[: s.index(a) + len(a)] + "\n" + fn() + "\n" + s[s.index(b):]
        else:
            print("marker missing:", name)
    open(p, "w").write(s)
    print("DESIGN.md regenerated")


if __name__ == "__main__":
    main()
