#!/bin/bash
# usage: tools/seeded_regress.sh <Cnn> [<Cnn> ...]  -- re-runs the quick check of each property against every stored seeded change of that
# property (scratch copy of /repo/toqito + patch, ./check --repo) and prints one line per change; every line must say exit=1.
cd "$(dirname "$0")/.."
for pid in "$@"; do
  for d in seeded/$pid-*/; do
    id=$(basename $d)
    out=$(seeded/run_check.sh /verif/seeded/$id $pid 2>&1 | tail -n 1)
    echo "$id $out"
  done
done
