"""Run by hand on the unchanged tree: lists, one by one, the separable inputs on which is_separable reaches its final
symmetric-extension search and answers False (known finding KF-C15-separable-final-return).  Writes mc/kf/c15_witness.json."""
import json, os, sys
from concurrent.futures import ProcessPoolExecutor
sys.path.insert(0, os.path.dirname(os.path.dirname(os.path.abspath(__file__))))
sys.path.insert(0, "/repo")
os.environ.setdefault("OMP_NUM_THREADS", "1"); os.environ.setdefault("OPENBLAS_NUM_THREADS", "1")


def run(case):
    from mc.props import c15
    r = c15.sep_check(case)
    return case, r["status"], r.get("site"), (r.get("info") or {}).get("line")


def main():
    from mc.engine import case_key
    from mc.props import c15
    cases = [c for c in c15.sep_cases("thorough", 0) if c["kind"] == "separable" and c["dA"] * c["dB"] > 6]
    print(len(cases), "cases", flush=True)
    keys, other = [], []
    with ProcessPoolExecutor(16) as ex:
        for case, st, site, line in ex.map(run, cases, chunksize=1):
            if st == "violation" and site and site.endswith(":final_return"):
                keys.append({"key": case_key(case), "case": case})
            elif st != "ok":
                other.append((case, st, site))
    out = os.path.join(os.path.dirname(os.path.dirname(os.path.abspath(__file__))), "mc", "kf", "c15_witness.json")
    json.dump({"tree": os.popen("git -C /repo log --format=%h -1").read().strip(), "cases_examined": len(cases), "witnesses": keys}, open(out, "w"), indent=0)
    print(len(keys), "witnesses;", len(other), "other non-ok:", other[:5])


if __name__ == "__main__":
    main()
